----------------------------- MODULE SortedSearch -----------------------------
(***************************************************************************)
(* C14 - sorted searches and PREVIOUS / NEXT / RANK agree with a linear    *)
(* scan (sandbox/grist/records.py RecordSet.find.*, FindOps;               *)
(* functions/prevnext.py; sort_key.py; table.py make_sort_spec).           *)
(*                                                                         *)
(* An ORDERED RECORD SET is a sequence of rows, each carrying its row id   *)
(* and its sort key (the values of the columns of the sort specification). *)
(* It is the set of rows of a table that match a group (column g equal to  *)
(* a given value, or all rows), ordered by the sort-key pre-order of       *)
(* sort_key.py and then by ascending row id.                               *)
(*                                                                         *)
(*   FindLt/Le/Gt/Ge/Eq(ord, probe)  LINEAR SCANS of the ordered set:      *)
(*       lt  the LAST  record that is before the probe                     *)
(*       le  the LAST  record that is before or equal to the probe         *)
(*       gt  the FIRST record that is after the probe                      *)
(*       ge  the FIRST record that is equal to or after the probe          *)
(*       eq  the FIRST record that is equal to the probe                   *)
(*     or the empty record (id 0).  "before"/"after" are positions in the  *)
(*     order of the set (so they flip for a descending column), and the    *)
(*     probe is compared on as many leading sort columns as it has values. *)
(*   PrevOf/NextOf/RankOf(ord, id)  the neighbours and the 1-based position *)
(*     the record in its ordered group (order "desc": counted from the     *)
(*     end).  Ties of the order_by columns are positions too: RANK is the  *)
(*     position, not a dense or competition rank.                          *)
(*                                                                         *)
(* Values are tagged:  [k, n, s]                                           *)
(*   k = "z" None, "i" int, "f" float, "b" bool, "s" str                   *)
(*   n = TWICE the numeric value (1.5 is 3); 0 for non-numbers             *)
(*   s = the code points of a str; <<>> otherwise                          *)
(***************************************************************************)
EXTENDS Integers, Sequences, FiniteSets

Sc(k, n, s) == [k |-> k, n |-> n, s |-> s]
No     == Sc("z", 0, <<>>)
I(x)   == Sc("i", 2 * x, <<>>)
Fl(x2) == Sc("f", x2, <<>>)             \* argument is twice the float
Bo(b)  == Sc("b", IF b THEN 2 ELSE 0, <<>>)
St(cp) == Sc("s", 0, cp)

\* TLC evaluates a function constructor lazily - on every application again.  Concatenation with the
\* empty sequence is the identity on sequences and makes TLC build the explicit tuple once.
Fz(sq) == sq \o <<>>

Kinds    == {"z", "i", "f", "b", "s"}
IsNum(v) == v.k \in {"i", "f", "b"}     \* isinstance(v, numbers.Number)

(***************************************************************************)
(* sort_key.py, SortKey.__lt__, one column:                                *)
(*   try:    a < b -> before;  b < a -> after                              *)
(*   except TypeError:  compare the fallback triples                       *)
(*      (0 if None else 1, 0 if Number else 1, type(a).__name__)           *)
(* Python's < is defined between two numbers (int, float, bool) and        *)
(* between two strs (by code points); every other pair of the universe     *)
(* raises TypeError (None < None included).                                *)
(***************************************************************************)
RECURSIVE LexLt(_, _)
LexLt(a, b) ==
  IF b = <<>> THEN FALSE
  ELSE IF a = <<>> THEN TRUE
  ELSE IF a[1] # b[1] THEN a[1] < b[1]
  ELSE LexLt(Tail(a), Tail(b))

Native(a, b)   == (IsNum(a) /\ IsNum(b)) \/ (a.k = "s" /\ b.k = "s")
NativeLt(a, b) == IF IsNum(a) THEN a.n < b.n ELSE LexLt(a.s, b.s)

TypeName(v) ==                           \* type(v).__name__ as code points
  CASE v.k = "z" -> <<78, 111, 110, 101, 84, 121, 112, 101>>    \* NoneType
    [] v.k = "i" -> <<105, 110, 116>>                           \* int
    [] v.k = "f" -> <<102, 108, 111, 97, 116>>                  \* float
    [] v.k = "b" -> <<98, 111, 111, 108>>                       \* bool
    [] v.k = "s" -> <<115, 116, 114>>                           \* str

FbLt(a, b) ==
  LET a1 == IF a.k = "z" THEN 0 ELSE 1
      b1 == IF b.k = "z" THEN 0 ELSE 1
      a2 == IF IsNum(a) THEN 0 ELSE 1
      b2 == IF IsNum(b) THEN 0 ELSE 1
  IN IF a1 # b1 THEN a1 < b1
     ELSE IF a2 # b2 THEN a2 < b2
     ELSE LexLt(TypeName(a), TypeName(b))

\* -1: a sorts before b in an ascending column, 1: after, 0: neither (a tie)
Cmp(a, b) ==
  IF Native(a, b)
  THEN IF NativeLt(a, b) THEN -1 ELSE IF NativeLt(b, a) THEN 1 ELSE 0
  ELSE IF FbLt(a, b) THEN -1 ELSE IF FbLt(b, a) THEN 1 ELSE 0

(***************************************************************************)
(* Sort specifications.  An order item is [c |-> column, desc |-> BOOLEAN] *)
(* ("-c" is desc).  make_sort_spec: sort_by = that column only; order_by:  *)
(* cut at a literal 'id' item, else add 'manualSort' unless literally      *)
(* given.  Row id ascending is always the last resort (SortKey.__lt__).    *)
(***************************************************************************)
Item(c, desc) == [c |-> c, desc |-> desc]
ManualSort == Item("manualSort", FALSE)

IsLit(it, c) == it.c = c /\ ~it.desc
SortSpec(mode, ob) ==
  IF mode = "sort_by" THEN ob
  ELSE IF \E j \in 1..Len(ob) : IsLit(ob[j], "id")
       THEN SubSeq(ob, 1, (CHOOSE j \in 1..Len(ob) :
                             IsLit(ob[j], "id") /\ \A i \in 1..(j - 1) : ~IsLit(ob[i], "id")) - 1)
  ELSE IF \E j \in 1..Len(ob) : IsLit(ob[j], "manualSort") THEN ob
  ELSE Append(ob, ManualSort)

(***************************************************************************)
(* Rows  [id, ms, g, s]: row id, TWICE the manualSort value, the group     *)
(* column g (an Int) and the sort column s (a tagged value).               *)
(***************************************************************************)
Cell(r, c) ==
  CASE c = "s" -> r.s
    [] c = "g" -> I(r.g)
    [] c = "manualSort" -> Fl(r.ms)
    [] c = "id" -> I(r.id)

KeyOf(r, spec) == Fz([j \in 1..Len(spec) |-> Cell(r, spec[j].c)])

Min2(a, b) == IF a <= b THEN a ELSE b

\* lexicographic comparison of two value tuples on the columns both have (Python's zip), signs applied
RECURSIVE ValCmpFrom(_, _, _, _)
ValCmpFrom(x, y, spec, j) ==
  IF j > Min2(Min2(Len(x), Len(y)), Len(spec)) THEN 0
  ELSE LET c == Cmp(x[j], y[j])
       IN IF c = 0 THEN ValCmpFrom(x, y, spec, j + 1)
          ELSE IF spec[j].desc THEN 0 - c ELSE c
ValCmp(x, y, spec) == ValCmpFrom(x, y, spec, 1)

\* An element of an ordered record set: the row id and the sort key of the row
Rec(r, spec) == [id |-> r.id, key |-> KeyOf(r, spec)]

\* SortKey.__lt__: the keys decide, ascending row id is the last resort
RecBefore(x, y, spec) ==
  LET c == ValCmp(x.key, y.key, spec)
  IN c < 0 \/ (c = 0 /\ x.id < y.id)

\* The ordered record set of the rows t[1..n] that satisfy the group (distinct ids; values of a
\* totally pre-ordered universe): every row is put after the last record that is not after it.
RECURSIVE InsertAt(_, _, _, _)
InsertAt(ord, x, spec, i) ==      \* i = number of leading records known to be before x
  IF i < Len(ord) /\ RecBefore(ord[i + 1], x, spec) THEN InsertAt(ord, x, spec, i + 1)
  ELSE SubSeq(ord, 1, i) \o <<x>> \o SubSeq(ord, i + 1, Len(ord))

RECURSIVE OrderedFrom(_, _, _, _, _)
OrderedFrom(t, grp, g, spec, i) ==
  IF i = 0 THEN <<>>
  ELSE LET rest == OrderedFrom(t, grp, g, spec, i - 1)
       IN IF grp => t[i].g = g THEN InsertAt(rest, Rec(t[i], spec), spec, 0) ELSE rest

\* grp: only the rows whose g equals the given g;  otherwise all rows
Ordered(t, grp, g, spec) == OrderedFrom(t, grp, g, spec, Len(t))

SortedBy(ord, spec) == \A i \in 1..(Len(ord) - 1) : RecBefore(ord[i], ord[i + 1], spec)
Ids(ord) == {ord[i].id : i \in 1..Len(ord)}
GroupIds(t, grp, g) == {t[i].id : i \in {i \in 1..Len(t) : grp => t[i].g = g}}

(***************************************************************************)
(* The searches: linear scans.                                             *)
(***************************************************************************)
\* position of every record relative to the probe: -1 before, 0 equal, 1 after
Rel(ord, pv, spec) == Fz([i \in 1..Len(ord) |-> ValCmp(ord[i].key, pv, spec)])

RECURSIVE ScanFirst(_, _, _)
ScanFirst(rel, want, i) ==
  IF i > Len(rel) THEN 0 ELSE IF rel[i] \in want THEN i ELSE ScanFirst(rel, want, i + 1)

RECURSIVE ScanLast(_, _, _, _)
ScanLast(rel, want, i, best) ==
  IF i > Len(rel) THEN best
  ELSE ScanLast(rel, want, i + 1, IF rel[i] \in want THEN i ELSE best)

IdAt(ord, i) == IF i >= 1 /\ i <= Len(ord) THEN ord[i].id ELSE 0     \* 0: the empty record

FindLt(ord, pv, spec) == IdAt(ord, ScanLast(Rel(ord, pv, spec), {-1}, 1, 0))
FindLe(ord, pv, spec) == IdAt(ord, ScanLast(Rel(ord, pv, spec), {-1, 0}, 1, 0))
FindGt(ord, pv, spec) == IdAt(ord, ScanFirst(Rel(ord, pv, spec), {1}, 1))
FindGe(ord, pv, spec) == IdAt(ord, ScanFirst(Rel(ord, pv, spec), {0, 1}, 1))
FindEq(ord, pv, spec) == IdAt(ord, ScanFirst(Rel(ord, pv, spec), {0}, 1))

FindOps == <<"lt", "le", "gt", "ge", "eq">>
FindAll(ord, pv, spec) ==            \* <<FindLt, FindLe, FindGt, FindGe, FindEq>> with one Rel
  LET rel == Rel(ord, pv, spec)
  IN << IdAt(ord, ScanLast(rel, {-1}, 1, 0)), IdAt(ord, ScanLast(rel, {-1, 0}, 1, 0)),
        IdAt(ord, ScanFirst(rel, {1}, 1)), IdAt(ord, ScanFirst(rel, {0, 1}, 1)),
        IdAt(ord, ScanFirst(rel, {0}, 1)) >>

RECURSIVE PosFrom(_, _, _)
PosFrom(ord, id, i) ==
  IF i > Len(ord) THEN 0 ELSE IF ord[i].id = id THEN i ELSE PosFrom(ord, id, i + 1)
Pos(ord, id) == PosFrom(ord, id, 1)

PrevOf(ord, id)     == IdAt(ord, Pos(ord, id) - 1)
NextOf(ord, id)     == IdAt(ord, Pos(ord, id) + 1)
RankOf(ord, id)     == Pos(ord, id)
RankDescOf(ord, id) == Len(ord) - Pos(ord, id) + 1

PosOps == <<"prev", "next", "rank", "rank">>
PosAll(ord, id) == <<PrevOf(ord, id), NextOf(ord, id), RankOf(ord, id), RankDescOf(ord, id)>>

(***************************************************************************)
(* Observers: the formulas through which the real functions are watched.   *)
(* A find observer is a formula of the probe table O(g0, q):               *)
(*   T.lookupRecords([g=$g0,] order_by|sort_by=<ob>).find.<op>(<pr>).id    *)
(*   [grp, mode, ob, pr]   pr: which of g0 / q are passed as search values  *)
(* A position observer is a formula of T itself:                           *)
(*   PREVIOUS|NEXT(rec, [group_by="g",] order_by=<ob>).id                  *)
(*   RANK(rec, [group_by="g",] order_by=<ob>[, order="desc"])              *)
(*   [gb, ob]              ob = <<>> is order_by=None                      *)
(***************************************************************************)
FObs(grp, mode, ob, pr) == [grp |-> grp, mode |-> mode, ob |-> ob, pr |-> pr]
PObs(gb, ob) == [gb |-> gb, ob |-> ob]

Asc(c) == Item(c, FALSE)
Dsc(c) == Item(c, TRUE)

FindObs(set) ==
  IF set = "id" THEN <<>>
  ELSE << FObs(TRUE,  "order_by", <<Asc("s")>>, <<"q">>),
          FObs(TRUE,  "order_by", <<Dsc("s")>>, <<"q">>),
          FObs(FALSE, "order_by", <<Asc("s")>>, <<"q">>),
          FObs(FALSE, "order_by", <<Dsc("s")>>, <<"q">>),
          FObs(FALSE, "order_by", <<Asc("g"), Asc("s")>>, <<"g0", "q">>),
          FObs(FALSE, "order_by", <<Dsc("g"), Dsc("s")>>, <<"g0", "q">>),
          FObs(FALSE, "order_by", <<Asc("g"), Dsc("s")>>, <<"g0">>),
          FObs(TRUE,  "order_by", <<Asc("s"), Asc("id")>>, <<"q">>),
          FObs(TRUE,  "sort_by",  <<Dsc("s")>>, <<"q">>) >>

PosObs(set) ==
  IF set = "id" THEN << PObs(FALSE, <<Asc("id")>>), PObs(TRUE, <<Asc("id")>>) >>
  ELSE << PObs(TRUE,  <<Asc("s")>>),
          PObs(TRUE,  <<Dsc("s")>>),
          PObs(FALSE, <<Asc("s")>>),
          PObs(FALSE, <<Dsc("s"), Asc("id")>>),
          PObs(TRUE,  <<Asc("s"), Asc("id")>>),
          PObs(FALSE, <<>>),
          PObs(FALSE, <<Asc("g"), Dsc("s")>>) >>

FSpec(fo) == SortSpec(fo.mode, fo.ob)
PSpec(po) == SortSpec("order_by", po.ob)

ProbeVals(fo, p) ==
  Fz([j \in 1..Len(fo.pr) |-> IF fo.pr[j] = "g0" THEN I(p.g0) ELSE p.q])

\* what the find observer fo has to show for probe p on table t: <<lt, le, gt, ge, eq>>
WantFind(t, fo, p) ==
  FindAll(Ordered(t, fo.grp, p.g0, FSpec(fo)), ProbeVals(fo, p), FSpec(fo))

\* what the position observer po has to show in row r of table t: <<prev, next, rank, rank desc>>
WantPos(t, po, r) == PosAll(Ordered(t, po.gb, r.g, PSpec(po)), r.id)

\* The same for all probes / all rows at once; every ordered record set is built once
\* (per observer and group value).
\* (group values are small naturals; OrdsOf(..)[g + 1] is the ordered record set of group value g)
G0s(pr) == {pr[j].g0 : j \in 1..Len(pr)}
Gs(t)   == {t[i].g : i \in 1..Len(t)}
MaxG(G) == IF G = {} THEN 0 ELSE CHOOSE m \in G : \A x \in G : x <= m
OrdsOf(t, grp, spec, G) ==
  IF grp THEN Fz([gi \in 1..(MaxG(G) + 1) |-> IF (gi - 1) \in G THEN Ordered(t, TRUE, gi - 1, spec) ELSE <<>>])
  ELSE LET all == Ordered(t, FALSE, 0, spec) IN Fz([gi \in 1..(MaxG(G) + 1) |-> all])

WantFindTable(t, fo, pr) ==
  LET spec == FSpec(fo)
      ords == OrdsOf(t, fo.grp, spec, G0s(pr))
  IN Fz([j \in 1..Len(pr) |-> FindAll(ords[pr[j].g0 + 1], ProbeVals(fo, pr[j]), spec)])

WantPosTable(t, po) ==
  LET ords == OrdsOf(t, po.gb, PSpec(po), Gs(t))
  IN Fz([i \in 1..Len(t) |-> PosAll(ords[t[i].g + 1], t[i].id)])

(***************************************************************************)
(* The relation.  An observation of one table state:                       *)
(*   [t  |-> the stored rows of T,                                         *)
(*    pr |-> the stored rows of O: <<[g0, q]>>,                            *)
(*    f  |-> per find observer, per row of O: <<lt, le, gt, ge, eq>>,      *)
(*    p  |-> per position observer, per row of T: <<prev, next, rank, rank desc>>] *)
(* every result an id / a rank, or a negative number if the formula raised *)
(* or returned something else.  Fails(set, o) is the set of failed         *)
(* observations [k |-> clause, o |-> observer, r |-> row, op |-> operation, want, got].      *)
(***************************************************************************)
KnownVal(v) == v.k \in Kinds
Decidable(o) ==
  /\ \A i \in 1..Len(o.t) : KnownVal(o.t[i].s)
  /\ \A j \in 1..Len(o.pr) : KnownVal(o.pr[j].q)
  /\ \A i, j \in 1..Len(o.t) : i # j => o.t[i].id # o.t[j].id
  /\ \A i \in 1..Len(o.t) : o.t[i].g \in 0..9
  /\ \A j \in 1..Len(o.pr) : o.pr[j].g0 \in 0..9

FindFails(set, o) ==
  LET F == FindObs(set)
      want == Fz([fi \in 1..Len(F) |-> WantFindTable(o.t, F[fi], o.pr)])
  IN {[k |-> "C14.find." \o FindOps[x[3]], o |-> x[1], r |-> x[2], op |-> x[3],
       want |-> want[x[1]][x[2]][x[3]], got |-> o.f[x[1]][x[2]][x[3]]] :
        x \in {x \in (1..Len(F)) \X (1..Len(o.pr)) \X (1..5) :
                 o.f[x[1]][x[2]][x[3]] # want[x[1]][x[2]][x[3]]}}

PosFails(set, o) ==
  LET P == PosObs(set)
      want == Fz([pi \in 1..Len(P) |-> WantPosTable(o.t, P[pi])])
  IN {[k |-> "C14." \o PosOps[x[3]], o |-> x[1], r |-> x[2], op |-> x[3],
       want |-> want[x[1]][x[2]][x[3]], got |-> o.p[x[1]][x[2]][x[3]]] :
        x \in {x \in (1..Len(P)) \X (1..Len(o.t)) \X (1..4) :
                 o.p[x[1]][x[2]][x[3]] # want[x[1]][x[2]][x[3]]}}

Shaped(set, o) ==
  /\ Len(o.f) = Len(FindObs(set)) /\ \A fi \in 1..Len(o.f) : Len(o.f[fi]) = Len(o.pr)
  /\ Len(o.p) = Len(PosObs(set)) /\ \A pi \in 1..Len(o.p) : Len(o.p[pi]) = Len(o.t)

Fails(set, o) == FindFails(set, o) \cup PosFails(set, o)

Clauses(set, o) ==
  IF ~Decidable(o) \/ ~Shaped(set, o) THEN {"C14.undecidable"}
  ELSE {x.k : x \in Fails(set, o)}

Ok(set, o) == Clauses(set, o) = {}

(***************************************************************************)
(* Reference solution in a different formulation: a model of the code.     *)
(* bisect_left / bisect_right over SortKey objects; a probe key carries    *)
(* the search values and a row id below / above every real row id.         *)
(***************************************************************************)
MinRowId == -1000000000
MaxRowId ==  1000000000

SK(vals, id) == [id |-> id, key |-> vals]

RECURSIVE BisectLeft(_, _, _, _, _)
BisectLeft(ord, x, spec, lo, hi) ==       \* 0-based lo, hi as in Python
  IF lo >= hi THEN lo
  ELSE LET mid == (lo + hi) \div 2
       IN IF RecBefore(ord[mid + 1], x, spec)
          THEN BisectLeft(ord, x, spec, mid + 1, hi)
          ELSE BisectLeft(ord, x, spec, lo, mid)

RECURSIVE BisectRight(_, _, _, _, _)
BisectRight(ord, x, spec, lo, hi) ==
  IF lo >= hi THEN lo
  ELSE LET mid == (lo + hi) \div 2
       IN IF RecBefore(x, ord[mid + 1], spec)
          THEN BisectRight(ord, x, spec, lo, mid)
          ELSE BisectRight(ord, x, spec, mid + 1, hi)

At0(ord, i) == IdAt(ord, i + 1)          \* RecordSet._at with a 0-based index

RefFindAll(ord, pv, spec) ==
  LET n  == Len(ord)
      bl == BisectLeft(ord, SK(pv, MinRowId), spec, 0, n)
      br == BisectRight(ord, SK(pv, MaxRowId), spec, 0, n)
      ge == At0(ord, bl)
      eq == IF ge # 0 /\ RecBefore(SK(pv, ge), ord[bl + 1], spec) THEN 0 ELSE ge
  IN <<At0(ord, bl - 1), At0(ord, br - 1), At0(ord, br), ge, eq>>

RefPosAll(ord, x, spec) ==                \* x: the record itself (its current key and id)
  LET n  == Len(ord)
      bl == BisectLeft(ord, x, spec, 0, n)
      br == BisectRight(ord, x, spec, 0, n)
  IN <<At0(ord, bl - 1), At0(ord, br), bl + 1, n - bl>>

Ref(set, t, pr) ==
  LET F == FindObs(set)
      P == PosObs(set)
  IN [t |-> t, pr |-> pr,
      f |-> Fz([fi \in 1..Len(F) |->
               LET spec == FSpec(F[fi])
                   ords == OrdsOf(t, F[fi].grp, spec, G0s(pr))
               IN Fz([j \in 1..Len(pr) |-> RefFindAll(ords[pr[j].g0 + 1], ProbeVals(F[fi], pr[j]), spec)])]),
      p |-> Fz([pi \in 1..Len(P) |->
               LET spec == PSpec(P[pi])
                   ords == OrdsOf(t, P[pi].gb, spec, Gs(t))
               IN Fz([i \in 1..Len(t) |-> RefPosAll(ords[t[i].g + 1], Rec(t[i], spec), spec)])])]

=============================================================================
