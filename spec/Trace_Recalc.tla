----------------------------- MODULE Trace_Recalc -----------------------------
(***************************************************************************)
(* Trace validation of the recompute scheduler (C->S for C06 / C18).       *)
(* The harness wraps, from outside, Engine._make_sorted_work_items,        *)
(* Engine._recompute_step (top-level calls = one popped work item) and     *)
(* Engine._recompute_one_cell of a live engine and logs one event per      *)
(* call, with arguments and outcome:                                       *)
(*   [e |-> "make", order |-> <<cols in processing order>>]                *)
(*   [e |-> "pop",  node, rows |-> <<required rows>>]                      *)
(*   [e |-> "eval", node, row, cycle, out |-> "value" | "order", tnode, trow, val] *)
(* Every logged event must be the corresponding action of Recalc.tla,      *)
(* enabled in the current model state, with the logged arguments; the      *)
(* unlogged steps (SkipRow, RowsDone, Unlock, Rebuild) are taken silently. *)
(* A trace is accepted when all its events are consumed and the model is   *)
(* in "done" with the logged final values.                                 *)
(***************************************************************************)
EXTENDS Recalc, Json, IOUtils

File == JsonDeserialize(IOEnv.TRACE_FILE)
Traces == File.traces
NT == Len(Traces)

TraceCols == File.cols
TraceRows == {File.rows[k] : k \in 1..Len(File.rows)}

VARIABLES ti, l, acc

tvars == <<ti, l, acc>>
Ev(k) == Traces[ti].events[k]
NEv == Len(Traces[ti].events)
SeqRange(s) == {s[k] : k \in 1..Len(s)}

LoadProgram(t) ==
  /\ same = [c \in Cols |-> SeqRange(Traces[t].same[c])]
  /\ cross = [c \in Cols |-> SeqRange(Traces[t].cross[c])]
  /\ dirty = Cells /\ done = {} /\ locked = {} /\ stack = <<>> /\ cur = NoItem /\ rowsq = <<>>
  /\ val = [x \in Cells |-> Unset] /\ doneCnt = 0 /\ expCnt = 0 /\ pc = "start"

LoadProgramNext(t) ==
  /\ same' = [c \in Cols |-> SeqRange(Traces[t].same[c])]
  /\ cross' = [c \in Cols |-> SeqRange(Traces[t].cross[c])]
  /\ dirty' = Cells /\ done' = {} /\ locked' = {} /\ stack' = <<>> /\ cur' = NoItem /\ rowsq' = <<>>
  /\ val' = [x \in Cells |-> Unset] /\ doneCnt' = 0 /\ expCnt' = 0 /\ pc' = "start"

TInit == ti = 1 /\ l = 0 /\ acc = <<>> /\ NT > 0 /\ LoadProgram(1)

\* logged steps
TMake ==
  /\ l < NEv /\ Ev(l + 1).e = "make"
  /\ MakeWorkItems
  /\ LET ord == Ev(l + 1).order
     IN /\ Len(ord) = Len(stack')
        \* items are processed from the end of the list
        /\ \A k \in 1..Len(ord) : stack'[Len(ord) + 1 - k].node = ord[k]
  /\ l' = l + 1 /\ UNCHANGED <<ti, acc>>

TPop ==
  /\ l < NEv /\ Ev(l + 1).e = "pop"
  /\ Pop
  /\ cur'.node = Ev(l + 1).node /\ cur'.rows = Ev(l + 1).rows
  /\ l' = l + 1 /\ UNCHANGED <<ti, acc>>

TEval ==
  /\ l < NEv /\ Ev(l + 1).e = "eval"
  /\ pc = "rows" /\ rowsq # <<>>
  /\ LET ev == Ev(l + 1)
         h == Head(rowsq)
     IN /\ cur.node = ev.node /\ h.row = ev.row
        /\ (h.required /\ <<cur.node, h.row>> \in locked) = ev.cycle
        /\ \/ /\ ev.out = "value" /\ EvalCell /\ val'[<<ev.node, ev.row>>] = ev.val
           \/ /\ ev.out = "order" /\ h.required /\ OrderErrorRequired
              /\ stack'[Len(stack')].node = ev.tnode /\ stack'[Len(stack')].rows = <<ev.trow>>
           \/ /\ ev.out = "order" /\ ~h.required /\ OrderErrorOpportunistic
              /\ FirstDirtyRead(cur.node, h.row) = <<<<ev.tnode, ev.trow>>>>
  /\ l' = l + 1 /\ UNCHANGED <<ti, acc>>

\* unlogged steps of the model
TSilent ==
  /\ (SkipRow \/ RowsDone \/ Unlock \/ Rebuild)
  /\ UNCHANGED tvars

\* end of a trace: everything consumed and the model finished with the logged values
TNextTrace ==
  /\ l = NEv /\ pc = "done"
  /\ acc' = Append(acc, [tid |-> Traces[ti].tid, ok |-> TRUE, l |-> l, pc |-> pc])
  /\ ti' = ti + 1 /\ l' = 0
  /\ IF ti < NT THEN LoadProgramNext(ti + 1) ELSE UNCHANGED vars
  /\ (ti < NT \/ JsonSerialize(IOEnv.OUT_FILE, acc'))

Matched == TMake \/ TPop \/ TEval \/ TSilent \/ TNextTrace

\* No action of the specification explains the next event (or the trace ended before "done"): the trace
\* is rejected at event l + 1; go on with the next trace.
TReject ==
  /\ ~ENABLED Matched
  /\ acc' = Append(acc, [tid |-> Traces[ti].tid, ok |-> FALSE, l |-> l + 1, pc |-> pc])
  /\ ti' = ti + 1 /\ l' = 0
  /\ IF ti < NT THEN LoadProgramNext(ti + 1) ELSE UNCHANGED vars
  /\ (ti < NT \/ JsonSerialize(IOEnv.OUT_FILE, acc'))

TNext == (ti <= NT) /\ (Matched \/ TReject)

TSpec == TInit /\ [][TNext]_<<vars, tvars>>

\* Acceptance: TLC must reach ti = NT + 1 (checked by the harness on the verdict file); for a rejected
\* trace the longest matched prefix is reported through this state function evaluated at the end.
Progress == <<ti, l>>
=============================================================================
