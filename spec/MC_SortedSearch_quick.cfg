INIT Init
NEXT Next
CHECK_DEADLOCK FALSE
CONSTANTS Fams <- QuickFams
INVARIANT SpecSane
