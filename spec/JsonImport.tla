------------------------------ MODULE JsonImport ------------------------------
(***************************************************************************)
(* C33 - the JSON importer reconstructs its input                          *)
(* (sandbox/grist/imports/import_json.py: parse_file / dumps).             *)
(*                                                                         *)
(* JSON values are trees of one tagged shape                               *)
(*     <<"obj", << <<key, value>>, ... >> >>     <<"arr", <<value, ...>> >> *)
(*     <<"num", 1>>  <<"str", "x">>  <<"bool", "true">>  <<"null", "">>    *)
(* (further scalar kinds of recorded cases: "float" / "big" with the       *)
(* decimal text as payload; scalars are only ever compared for identity).  *)
(*                                                                         *)
(* An input is [name, t, inc, exc]: the import name, the document and the  *)
(* includes / excludes options, each option a path <<name, key, ...>>.     *)
(* An output is a sequence of tables                                       *)
(*     [name |-> <<name, key, ...>>,                                       *)
(*      cols |-> << [id, ty |-> [k, t], v |-> <<scalar, ...>>], ... >>]    *)
(* where a table name "T_a_b" is given as <<"T","a","b">> and a column     *)
(* type "Ref:T_a" as [k |-> "Ref", t |-> <<"T","a">>] (strings are atomic  *)
(* in TLC; the worker splits at ':' and '_', which is unambiguous for the  *)
(* key alphabets considered: single characters other than '_').            *)
(*                                                                         *)
(* Clauses(in, out) is the admissible-output RELATION.  It is stated over  *)
(* POSITIONS of the document (sequences of key / index steps):             *)
(*   - an ITEM is a position that becomes a row: every array element, every*)
(*     object, and the root unless it is an array;                         *)
(*   - the table of an item is named by the keys on its position (an array *)
(*     directly inside an array contributes the empty key);                *)
(*   - its row number is its rank, in document order, among the items of   *)
(*     the same table (a table has no id column, so a reference can only   *)
(*     be a row number);                                                   *)
(*   - a scalar under key k of an object belongs to column k of that       *)
(*     object's row; a bare scalar item belongs to column "" of its own    *)
(*     row;                                                                *)
(*   - an object under key k of an object is referenced from column k of   *)
(*     the owner's row; an array element points back to the item owning    *)
(*     the array from the one column of its table that is not a key; such  *)
(*     a column has the type Ref:<table pointed to> (for a key column: if  *)
(*     all its non-null entries are references - a column that also holds  *)
(*     scalars keeps the type of its first value, as documented);          *)
(*   - every column of a table has as many values as the table has items,  *)
(*     and every non-null cell of the output is one of the above;          *)
(*   - a path is kept iff (no includes or some include is a prefix of its  *)
(*     name) and no exclude is a prefix of its name; a row exists iff its  *)
(*     table is kept, a cell iff its row exists and the path table_key is  *)
(*     kept, a back reference iff both rows exist.                         *)
(* Nothing is demanded about table order, column order, the id of the      *)
(* back-reference column, types of scalar columns, all-null columns or     *)
(* tables without columns (these carry no row count in the output format). *)
(*                                                                         *)
(* Flatten(in) is a reference solution written differently (one depth-     *)
(* first walk that appends rows, like an importer would): the design model *)
(* checks Ok(in, Flatten(in)) on every bounded input.                      *)
(***************************************************************************)
EXTENDS Naturals, Sequences, FiniteSets

IsObj(v) == v[1] = "obj"
IsArr(v) == v[1] = "arr"
IsScalar(v) == ~IsObj(v) /\ ~IsArr(v)
Null == <<"null", "">>
Num(n) == <<"num", n>>

Front(s) == SubSeq(s, 1, Len(s) - 1)
Last(s) == s[Len(s)]
SeqRange(s) == {s[i] : i \in 1..Len(s)}

\* ---------------------------------------------------------------------------------------------
\* positions
KeyStep(k) == <<"k", k, 0>>
IdxStep(i) == <<"i", "", i>>
IsKey(s) == s[1] = "k"
IsIdx(s) == s[1] = "i"

\* all <<position, value at that position>> of a document
RECURSIVE Positions(_)
Positions(v) ==
  {<<<<>>, v>>} \cup
  (IF IsObj(v)
   THEN UNION {{<<<<KeyStep(v[2][i][1])>> \o q[1], q[2]>> : q \in Positions(v[2][i][2])} : i \in 1..Len(v[2])}
   ELSE IF IsArr(v)
   THEN UNION {{<<<<IdxStep(i)>> \o q[1], q[2]>> : q \in Positions(v[2][i])} : i \in 1..Len(v[2])}
   ELSE {})

\* the keys on a position; an index step directly after an index step stands for the key ""
RECURSIVE TPath(_)
TPath(pos) ==
  IF pos = <<>> THEN <<>>
  ELSE LET n == Len(pos)
       IN TPath(Front(pos)) \o
          (IF IsKey(pos[n]) THEN <<pos[n][2]>>
           ELSE IF n > 1 /\ IsIdx(pos[n - 1]) THEN <<"">> ELSE <<>>)

\* document order of two items of one table: they first differ at an index step
Before(p, q) ==
  \E d \in 1..(IF Len(p) < Len(q) THEN Len(p) ELSE Len(q)) :
    /\ \A e \in 1..(d - 1) : p[e] = q[e]
    /\ p[d] # q[d]
    /\ p[d][3] < q[d][3]

\* ---------------------------------------------------------------------------------------------
\* includes / excludes.  The options are prefixes of NAMES (text); for components that are single
\* characters or empty and contain no '_' a name prefix is: all components but the last equal, and
\* the last one empty or equal.
PrefixOf(o, s) ==
  /\ Len(o) >= 1 /\ Len(o) <= Len(s)
  /\ \A i \in 1..(Len(o) - 1) : o[i] = s[i]
  /\ (o[Len(o)] = "" \/ o[Len(o)] = s[Len(o)])
Kept(in, tp) ==
  LET s == <<in.name>> \o tp
  IN /\ (in.inc = <<>> \/ \E i \in 1..Len(in.inc) : PrefixOf(in.inc[i], s))
     /\ ~\E i \in 1..Len(in.exc) : PrefixOf(in.exc[i], s)

\* ---------------------------------------------------------------------------------------------
\* what the document denotes (before filtering)
Expected(in) ==
  LET PV == Positions(in.t)                   \* x[1] = position, x[2] = value
      UnderKey(pos) == pos # <<>> /\ IsKey(Last(pos))
      IsItem(x) == IF x[1] = <<>> THEN ~IsArr(x[2]) ELSE IsIdx(Last(x[1])) \/ IsObj(x[2])
      \* items with their table path, then with their row number: <<position, table path, row>>
      ItemTp == {<<x[1], TPath(x[1])>> : x \in {y \in PV : IsItem(y)}}
      Items == {<<x[1], x[2], 1 + Cardinality({y \in ItemTp : y[2] = x[2] /\ Before(y[1], x[1])})>> : x \in ItemTp}
      Item(pos) == CHOOSE x \in Items : x[1] = pos
      \* scalars: owner item and column
      Owner(pos) == Item(IF UnderKey(pos) THEN Front(pos) ELSE pos)
      ColOf(pos) == IF UnderKey(pos) THEN Last(pos)[2] ELSE ""
      \* array elements: the item that owns the array
      Parent(pos) == Item(IF IsIdx(pos[Len(pos) - 1]) THEN Front(pos) ELSE SubSeq(pos, 1, Len(pos) - 2))
  IN [ rows |-> {[tp |-> x[2], row |-> x[3]] : x \in Items},
       cells |-> {[tp |-> Owner(x[1])[2], row |-> Owner(x[1])[3], col |-> ColOf(x[1]), val |-> x[2], ref |-> FALSE] :
                    x \in {y \in PV : IsScalar(y[2])}}
                 \cup
                 {[tp |-> Item(Front(x[1]))[2], row |-> Item(Front(x[1]))[3], col |-> Last(x[1])[2],
                   val |-> Num(x[3]), ref |-> TRUE] : x \in {y \in Items : UnderKey(y[1])}},
       backs |-> {[tp |-> x[2], row |-> x[3], ptp |-> Parent(x[1])[2], val |-> Num(Parent(x[1])[3])] :
                    x \in {y \in Items : Len(y[1]) >= 2 /\ IsIdx(Last(y[1]))}} ]

CellKept(in, e) == Kept(in, e.tp) /\ Kept(in, Append(e.tp, e.col))
BackKept(in, b) == Kept(in, b.tp) /\ Kept(in, b.ptp)

\* ---------------------------------------------------------------------------------------------
\* the relation
Clauses(in, out) ==
  LET E == Expected(in)
      NameOf(tp) == <<in.name>> \o tp
      RefTy(tp) == [k |-> "Ref", t |-> NameOf(tp)]
      T == 1..Len(out)
      Tabs(tp) == {t \in T : out[t].name = NameOf(tp)}
      C(t) == 1..Len(out[t].cols)
      NRows(tp) == Cardinality({r \in E.rows : r.tp = tp})
      KeyCols(tp) == {e.col : e \in {x \in E.cells : x.tp = tp}}
      Known(t) == \E r \in E.rows : out[t].name = NameOf(r.tp)
      TpOf(t) == Tail(out[t].name)
      \* a cell that must be there
      Has(e) == \E t \in Tabs(e.tp) : \E c \in C(t) :
                  /\ out[t].cols[c].id = e.col
                  /\ Len(out[t].cols[c].v) >= e.row
                  /\ out[t].cols[c].v[e.row] = e.val
      \* a column all of whose non-null entries are references is a reference column
      PureRef(tp, col) == ~\E e \in E.cells : e.tp = tp /\ e.col = col /\ ~e.ref /\ e.val # Null
      \* the candidates for what a non-null cell of the output may be
      Sources(t, c, r) ==
        LET col == out[t].cols[c]
        IN IF col.id \in KeyCols(TpOf(t))
           THEN {[kept |-> CellKept(in, e)] :
                   e \in {x \in E.cells : x.tp = TpOf(t) /\ x.col = col.id /\ x.row = r /\ x.val = col.v[r]}}
           ELSE {[kept |-> BackKept(in, b)] :
                   b \in {x \in E.backs : x.tp = TpOf(t) /\ x.row = r /\ x.val = col.v[r]}}
      Filled == {tcr \in UNION {UNION {{<<t, c, r>> : r \in 1..Len(out[t].cols[c].v)} : c \in C(t)} :
                                 t \in {u \in T : Known(u)}} :
                   out[tcr[1]].cols[tcr[2]].v[tcr[3]] # Null}

      Rect == \A t \in T : \A c, d \in C(t) : Len(out[t].cols[c].v) = Len(out[t].cols[d].v)
      NoDup == /\ \A t, u \in T : out[t].name = out[u].name => t = u
               /\ \A t \in T : \A c, d \in C(t) : out[t].cols[c].id = out[t].cols[d].id => c = d
      Rows == \A t \in T : Known(t) => \A c \in C(t) : Len(out[t].cols[c].v) = NRows(TpOf(t))
      Scalars == \A e \in E.cells : (~e.ref /\ e.val # Null /\ CellKept(in, e)) => Has(e)
      Refs == \A e \in E.cells : (e.ref /\ CellKept(in, e)) => Has(e)
      RefTypes == \A e \in E.cells : (e.ref /\ CellKept(in, e) /\ PureRef(e.tp, e.col)) =>
                    \A t \in Tabs(e.tp) : \A c \in C(t) :
                      out[t].cols[c].id = e.col => out[t].cols[c].ty = RefTy(Append(e.tp, e.col))
      Backs == \A b \in E.backs : BackKept(in, b) =>
                 \E t \in Tabs(b.tp) :
                   LET extra == {c \in C(t) : out[t].cols[c].id \notin KeyCols(b.tp)}
                   IN /\ Cardinality(extra) = 1
                      /\ \A c \in extra : /\ out[t].cols[c].ty = RefTy(b.ptp)
                                          /\ Len(out[t].cols[c].v) >= b.row
                                          /\ out[t].cols[c].v[b.row] = b.val
      \* nothing else: every table and every non-null cell has a source in the document ...
      NoExtra == /\ \A t \in T : Known(t)
                 /\ \A tcr \in Filled : Sources(tcr[1], tcr[2], tcr[3]) # {}
      \* ... that the options keep
      Filtered == /\ \A t \in T : Known(t) => Kept(in, TpOf(t))
                  /\ \A tcr \in Filled : LET s == Sources(tcr[1], tcr[2], tcr[3])
                                         IN s # {} => \E x \in s : x.kept
  IN (IF Rect THEN {} ELSE {"C33.rect"}) \cup
     (IF NoDup THEN {} ELSE {"C33.dup"}) \cup
     (IF Rows THEN {} ELSE {"C33.rows"}) \cup
     (IF Scalars THEN {} ELSE {"C33.scalar"}) \cup
     (IF Refs THEN {} ELSE {"C33.ref"}) \cup
     (IF RefTypes THEN {} ELSE {"C33.reftype"}) \cup
     (IF Backs THEN {} ELSE {"C33.back"}) \cup
     (IF NoExtra THEN {} ELSE {"C33.extra"}) \cup
     (IF Filtered THEN {} ELSE {"C33.filter"})

Ok(in, out) == Clauses(in, out) = {}

\* ---------------------------------------------------------------------------------------------
\* Reference solution: one depth-first walk.  An occurrence is a row-to-be:
\*   [p |-> table path, f |-> its fields, par |-> the occurrence owning the array it is an element
\*    of (0 = none), own |-> the occurrence whose field it is (0 = none)]
Fields(v) == IF IsObj(v) THEN v[2] ELSE << <<"", v>> >>      \* a non-object item is the object {"": v}

RECURSIVE Walk(_, _, _, _, _), WalkFields(_, _, _), WalkElems(_, _, _, _, _)
Walk(acc, p, v, par, own) ==
  WalkFields(Append(acc, [p |-> p, f |-> Fields(v), par |-> par, own |-> own]), Len(acc) + 1, 1)
WalkFields(acc, me, i) ==
  LET f == acc[me].f
  IN IF i > Len(f) THEN acc
     ELSE LET q == Append(acc[me].p, f[i][1])
              v == f[i][2]
          IN WalkFields(IF IsObj(v) THEN Walk(acc, q, v, 0, me)
                        ELSE IF IsArr(v) THEN WalkElems(acc, q, v[2], 1, me)
                        ELSE acc, me, i + 1)
WalkElems(acc, q, vs, j, me) ==
  IF j > Len(vs) THEN acc ELSE WalkElems(Walk(acc, q, vs[j], me, 0), q, vs, j + 1, me)

RECURSIVE Sorted(_)
Sorted(S) == IF S = {} THEN <<>>
             ELSE LET m == CHOOSE x \in S : \A y \in S : x <= y IN <<m>> \o Sorted(S \ {m})
RECURSIVE Dedup(_, _)
Dedup(s, acc) == IF s = <<>> THEN acc
                 ELSE Dedup(Tail(s), IF Head(s) \in SeqRange(acc) THEN acc ELSE Append(acc, Head(s)))
RECURSIVE Concat(_)
Concat(ss) == IF ss = <<>> THEN <<>> ELSE Head(ss) \o Concat(Tail(ss))

Flatten(in) ==
  LET occs == WalkElems(<<>>, <<>>, IF IsArr(in.t) THEN in.t[2] ELSE <<in.t>>, 1, 0)
      N == Len(occs)
      RowOf(i) == Cardinality({j \in 1..i : occs[j].p = occs[i].p})
      firsts == Sorted({i \in 1..N : Kept(in, occs[i].p) /\ \A j \in 1..(i - 1) : occs[j].p # occs[i].p})
      Table(first) ==
        LET p == occs[first].p
            rows == Sorted({i \in 1..N : occs[i].p = p})
            Stored(fld) == ~IsArr(fld[2]) /\ Kept(in, Append(p, fld[1]))
            keys == Dedup(Concat([r \in 1..Len(rows) |->
                                    LET f == occs[rows[r]].f
                                    IN Concat([j \in 1..Len(f) |-> IF Stored(f[j]) THEN <<f[j][1]>> ELSE <<>>])]),
                          <<>>)
            Cell(i, k) ==
              LET f == occs[i].f
                  hit == {j \in 1..Len(f) : f[j][1] = k /\ Stored(f[j])}
              IN IF hit = {} THEN [val |-> Null, ref |-> FALSE]
                 ELSE LET v == f[CHOOSE j \in hit : TRUE][2]
                      IN IF IsObj(v)
                         THEN [val |-> Num(RowOf(CHOOSE c \in 1..N : occs[c].own = i /\ occs[c].p = Append(p, k))),
                               ref |-> TRUE]
                         ELSE [val |-> v, ref |-> FALSE]
            DataCol(k) ==
              LET cs == [r \in 1..Len(rows) |-> Cell(rows[r], k)]
                  isref == /\ \E r \in 1..Len(rows) : cs[r].ref
                           /\ \A r \in 1..Len(rows) : cs[r].ref \/ cs[r].val = Null
              IN [id |-> k,
                  ty |-> IF isref THEN [k |-> "Ref", t |-> <<in.name>> \o Append(p, k)] ELSE [k |-> "Any", t |-> <<>>],
                  v |-> [r \in 1..Len(rows) |-> cs[r].val]]
            HasPar(i) == occs[i].par # 0 /\ Kept(in, occs[occs[i].par].p)
            back == IF \E r \in 1..Len(rows) : HasPar(rows[r])
                    THEN LET q == occs[occs[CHOOSE i \in SeqRange(rows) : HasPar(i)].par].p
                         IN << [id |-> "<parent>", ty |-> [k |-> "Ref", t |-> <<in.name>> \o q],
                                v |-> [r \in 1..Len(rows) |-> IF HasPar(rows[r]) THEN Num(RowOf(occs[rows[r]].par))
                                                              ELSE Null]] >>
                    ELSE <<>>
        IN [name |-> <<in.name>> \o p, cols |-> [c \in 1..Len(keys) |-> DataCol(keys[c])] \o back]
  IN [t \in 1..Len(firsts) |-> Table(firsts[t])]

=============================================================================
