-------------------------- MODULE Trace_RecalcFinal --------------------------
(***************************************************************************)
(* Conformance judge for C06/C18 (S->C): the real engine was run on a      *)
(* program TLC enumerated, under a given evaluation order; its final cell  *)
(* values are compared with the denotational oracle of RecalcSem.          *)
(* Cases: [cols, rows, same, cross, perm, vals |-> [col |-> <<v per row>>],*)
(*         exc |-> ""]   with v = n >= 0 | -1 CircularRefError | -3 other  *)
(***************************************************************************)
EXTENDS RecalcSem, TLC, Json, IOUtils
Cases == JsonDeserialize(IOEnv.TRACE_FILE)
N == Len(Cases)
VARIABLES i, bad
SeqRange(s) == {s[k] : k \in 1..Len(s)}
Judge(c) ==
  IF c.exc # "" THEN {"C18.internal-error"}
  ELSE
  LET cols == SeqRange(c.cols)
      sm == [x \in cols |-> SeqRange(c.same[x])]
      cr == [x \in cols |-> SeqRange(c.cross[x])]
      cells == {<<x, c.rows[k]>> : x \in cols, k \in 1..Len(c.rows)}
      V(cell) == c.vals[cell[1]][CHOOSE k \in 1..Len(c.rows) : c.rows[k] = cell[2]]
      oncycle == {cell \in cells : POnCycle(sm, cr, cell)}
      free == {cell \in cells : ~PReachesCycle(sm, cr, cell)}
      \* phase 2: column c.col2 got the constant formula `1`; the new program's meaning must hold
      sm2 == [x \in cols |-> IF x = c.col2 THEN {} ELSE sm[x]]
      cr2 == [x \in cols |-> IF x = c.col2 THEN {} ELSE cr[x]]
      V2(cell) == c.vals2[cell[1]][CHOOSE k \in 1..Len(c.rows) : c.rows[k] = cell[2]]
      oncycle2 == {cell \in cells : POnCycle(sm2, cr2, cell)}
      free2 == {cell \in cells : ~PReachesCycle(sm2, cr2, cell)}
  IN (IF \A cell \in oncycle : V(cell) = Circ THEN {} ELSE {"C18.cycle-cell"})
     \cup (IF c.col2 = "" \/ (\A cell \in oncycle2 : V2(cell) = Circ) THEN {} ELSE {"C18.cycle-cell-after-edit"})
     \cup (IF c.col2 = "" \/ (\A cell \in free2 : V2(cell) = PSem(sm2, cr2, cell)) THEN {}
          ELSE {"C06.value-after-edit"})
     \cup (IF \A cell \in free : V(cell) = PSem(sm, cr, cell) THEN {} ELSE {"C06.value"})
     \* the stored actions of two schedules differ at most in order (canonical multisets equal)
     \cup (IF c.sig = c.ref_sig THEN {} ELSE {"C06.actions"})
     \* binding guard: the engine really processed the columns in the order TLC chose
     \cup (IF c.order_seen = c.perm THEN {} ELSE {"MACHINERY.order-not-applied"})
Init == i = 0 /\ bad = <<>> /\ (N > 0 \/ JsonSerialize(IOEnv.OUT_FILE, <<>>))
Next ==
  /\ i < N
  /\ i' = i + 1
  /\ bad' = LET j == Judge(Cases[i + 1])
            IN IF j = {} THEN bad ELSE Append(bad, [i |-> i + 1, c |-> j])
  /\ (i' < N \/ JsonSerialize(IOEnv.OUT_FILE, bad'))
Spec == Init /\ [][Next]_<<i, bad>>
View == i
=============================================================================
