INIT Init
NEXT Next
CONSTANTS MaxLen = 3
          MaxLen2 = 3
          Nest <- NestQuick
          MaxParts = 2
          CombP = 1
          BothComb = FALSE
INVARIANT SpecSane
CHECK_DEADLOCK FALSE
