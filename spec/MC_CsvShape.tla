----------------------------- MODULE MC_CsvShape -----------------------------
(* Bounded design model of C32.  One state per input = (shape, delimiter, quote char, headers).   *)
(* Two families of shapes are enumerated:                                                         *)
(*   A  "boundary structure": up to MaxSegsA segments, row counts CountsA (straddling the 100-row  *)
(*      sample), widths 0..MaxWA, kinds KindsA, one dialect (comma, double quote);                 *)
(*   B  "cell content": up to MaxSegsB short segments (row counts CountsB), widths 0..MaxW, every  *)
(*      cell kind, optionally one empty column inside the row (Holes), every dialect.             *)
(* A shape grows by one segment per step (every prefix is itself an input), so that TLC's workers  *)
(* share the enumeration.                                                                         *)
(* SpecSane: the relation CsvShape!Ok is satisfiable on every enumerated grid (by the outputs      *)
(* that skip none / all of the leading blank rows) and rejects an output that lost a column.      *)
(* The enumerated input space is written to OUT_FILE for the harness.                             *)
EXTENDS CsvShape, TLC, Json, IOUtils, SequencesExt, FiniteSetsExt
CONSTANTS MaxW, MaxWA, CountsA, KindsA, MaxSegsA, CountsB, MaxSegsB, Holes, Delims, Quotes

SegA == {<<n, w, k, 0>> : n \in CountsA, w \in 1..MaxWA, k \in KindsA} \cup {<<n, 0, "e", 0>> : n \in CountsA}
SegB == {s \in {<<n, w, k, h>> : n \in CountsB, w \in 1..MaxW, k \in Kinds, h \in 0..MaxW} :
           /\ s[4] <= s[2]
           /\ s[4] > 0 => (Holes /\ s[3] # "e" /\ s[2] >= 2)}
        \cup {<<n, 0, "e", 0>> : n \in CountsB}

SeqsUpTo(S, m) == UNION {[1..n -> S] : n \in 0..m}
In(s, d, q, h) == [src |-> "shape", segs |-> s, delim |-> d, quote |-> q, headers |-> h]

FamilyA == {In(s, "comma", "dq", h) : s \in SeqsUpTo(SegA, MaxSegsA), h \in {0, 1}}
FamilyB == {In(s, d, q, h) : s \in SeqsUpTo(SegB, MaxSegsB), d \in Delims, q \in Quotes, h \in {0, 1}}
Valid == FamilyA \cup FamilyB

ASSUME /\ "OUT_FILE" \in DOMAIN IOEnv
       => JsonSerialize(IOEnv.OUT_FILE, SetToSeq(Valid))

VARIABLES input, fam
Init == \/ fam = "A" /\ input \in {In(<<>>, "comma", "dq", h) : h \in {0, 1}}
        \/ fam = "B" /\ input \in {In(<<>>, d, q, h) : d \in Delims, q \in Quotes, h \in {0, 1}}
Next == /\ UNCHANGED fam
        /\ \/ fam = "A" /\ Len(input.segs) < MaxSegsA
              /\ \E s \in SegA : input' = [input EXCEPT !.segs = Append(@, s)]
           \/ fam = "B" /\ Len(input.segs) < MaxSegsB
              /\ \E s \in SegB : input' = [input EXCEPT !.segs = Append(@, s)]
SpecSane ==
  LET g == GridOf(input.segs, input.headers)
      h == input.headers
  IN /\ Ok(g, h, Ref(g, h, 0))
     /\ Ok(g, h, Ref(g, h, LeadBlank(g, h)))
     /\ Required(g) # <<>> => ~Ok(g, h, DropLast(Ref(g, h, 0)))
=============================================================================
