INIT Init
NEXT Next
CHECK_DEADLOCK FALSE
CONSTANTS MaxRows = 2
          MaxLen = 2
          KeyRows <- KeyRows3
          RK1 <- RK1Min
          RK1T <- RK1Min
          RK2 <- RK2Std
          CK1 <- CK1Min
          CK2 <- CK2Min
          DefOnMany = {}
INVARIANT SpecSane
INVARIANT RejectSane
