INIT Init
CHECK_DEADLOCK FALSE
NEXT Next
CONSTANTS MaxRows = 2
          MaxLen = 2
          RK1 <- RK1Min
          RK2 <- RK2Std
          CK1 <- CK1Min
          CK2 <- CK2Min
          DefOnMany = {"-"}
INVARIANT SpecSane
INVARIANT RejectSane
