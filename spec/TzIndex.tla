------------------------------- MODULE TzIndex -------------------------------
(***************************************************************************)
(* C34 - time zone conversions round-trip (sandbox/grist/moment.py).       *)
(*                                                                         *)
(* A zone is what moment.py reads from a moment-timezone record:           *)
(*   z = [u |-> <<until_1 < ... < until_n>>, o |-> <<off_1, ..., off_n+1>>]*)
(* off_j is in force for instants t with until_(j-1) <= t < until_j.       *)
(* As in the records, offsets are WEST of UTC: local = t - off,            *)
(* t = local + off.  All quantities are small integers (hours in the       *)
(* bounded model; the unit does not matter to the definitions).            *)
(*                                                                         *)
(* Index(z, t)       segment in force at instant t (Zone._index)           *)
(* IndexDt(z, l, f)  segment assigned to the local time l with favoured    *)
(*                   offset f, as moment.py documents it (Zone._index_dt): *)
(*                   an existing local time gets a segment in which it     *)
(*                   really occurs - the earlier one if it occurs twice,   *)
(*                   unless f names the later one; a skipped local time    *)
(*                   gets the segment that starts at the gap               *)
(*                                                                         *)
(* The property (Fails / Clauses, the admissible-output relation):         *)
(*   C34.roundtrip  t -> local -> back = t                                 *)
(*   C34.offset     the local time shown for t is t - off(Index(t));       *)
(*                  a local time l (existing, ambiguous or skipped) that   *)
(*                  is assigned offset o, i.e. instant t = l + o, has      *)
(*                  o \in Cand(z, t): o belongs to a segment that contains *)
(*                  t or that begins/ends closer to t than the size of the *)
(*                  clock jump at that end (skipped and repeated local     *)
(*                  times arise only that close to a transition)           *)
(*   C34.date       date d -> midnight instant -> local l: l is on day d,  *)
(*                  and l is 00:00 of day d whenever that local time exists*)
(*                  (nothing is asked for a day the zone skipped as a whole)*)
(*   C34.raised     a conversion raised                                    *)
(***************************************************************************)
EXTENDS Integers, Sequences, FiniteSets, SequencesExt

NoFav == 99                     \* "no favoured offset" (None in moment.py)
Day == 24

Abs(x) == IF x < 0 THEN 0 - x ELSE x
MinOf(S) == CHOOSE x \in S : \A y \in S : x <= y

NTr(z) == Len(z.u)
NSeg(z) == Len(z.o)
Jump(z, k) == Abs(z.o[k + 1] - z.o[k])            \* size of the clock jump at transition k

\* The class of zones considered: transitions do not interact (the repeated / skipped local times
\* of two neighbouring transitions do not touch).  Every bundled zone is in this class; the judge
\* checks that on the bundled records in every run (Trace_TzIndex!ShapeFails).
WellFormed(z) ==
  /\ NSeg(z) = NTr(z) + 1
  /\ \A k \in 1..(NTr(z) - 1) : z.u[k + 1] - z.u[k] > Jump(z, k) + Jump(z, k + 1)

Index(z, t) == 1 + Cardinality({k \in 1..NTr(z) : z.u[k] <= t})
OffAt(z, t) == z.o[Index(z, t)]
LocalOf(z, t) == t - OffAt(z, t)

InSeg(z, j, t) == (j = 1 \/ z.u[j - 1] <= t) /\ (j = NSeg(z) \/ t < z.u[j])
\* the segments in which local time l really occurs: 0 = skipped, 1 = regular, 2+ = ambiguous
Interp(z, l) == {j \in 1..NSeg(z) : InSeg(z, j, l + z.o[j])}
\* the transitions whose gap contains l
GapsAt(z, l) == {k \in 1..NTr(z) : z.u[k] - z.o[k] <= l /\ l < z.u[k] - z.o[k + 1]}

\* day d (local times Day*d .. Day*(d+1)-1) is skipped as a whole: no instant has that local date
\* (a zone that moved across the date line); transitions do not interact, so one gap holds it
DaySkipped(z, d) == \E k \in 1..NTr(z) : z.u[k] - z.o[k] <= Day * d /\ Day * (d + 1) <= z.u[k] - z.o[k + 1]

IndexDt(z, l, f) ==
  LET V == Interp(z, l)
  IN IF V # {}
     THEN LET later == {j \in V : j # MinOf(V) /\ z.o[j] = f}
          IN IF later # {} THEN MinOf(later) ELSE MinOf(V)
     ELSE LET G == GapsAt(z, l) IN IF G # {} THEN MinOf(G) + 1 ELSE 1

\* offsets the zone uses around instant t
NearSeg(z, j, t) == /\ (j = 1 \/ z.u[j - 1] - Jump(z, j - 1) <= t)
                    /\ (j = NSeg(z) \/ t < z.u[j] + Jump(z, j))
Cand(z, t) == {z.o[j] : j \in {i \in 1..NSeg(z) : NearSeg(z, i, t)}}

\* ------------------------------------------------------------------------------------------
\* Probes of one zone over the window lo..hi of instants (in.z, in.lo, in.hi):
\*   out.ts   one entry per instant t, in order:  [t, l = local shown, b = converted back, exc]
\*   out.loc  one entry per (local time l in lo-3..hi+3, favoured offset f in Favs):  [l, f, o, exc]
\*   out.dt   one entry per day d in -1..1 (day 0 starts at instant 0 in UTC): [d, t, l, exc]
\* (entries carry further fields written by the harness; they are not read here)
Favs(z) == {NoFav} \cup {z.o[j] : j \in 1..NSeg(z)}
Locals(in) == (in.lo - 3)..(in.hi + 3)
Days == (0 - 1)..1

F(c, k, n) == [c |-> c, k |-> k, n |-> n]

TsFails(in, out) ==
  LET z == in.z IN
  UNION {LET e == out.ts[n] IN
         IF e.exc # "" THEN {F("C34.raised", "ts", n)}
         ELSE (IF e.b # e.t THEN {F("C34.roundtrip", "ts", n)} ELSE {}) \cup
              (IF e.t - e.l # OffAt(z, e.t) THEN {F("C34.offset", "ts", n)} ELSE {})
         : n \in 1..Len(out.ts)}

LocFails(in, out) ==
  LET z == in.z IN
  UNION {LET e == out.loc[n] IN
         IF e.exc # "" THEN {F("C34.raised", "loc", n)}
         ELSE IF e.o \notin Cand(z, e.l + e.o) THEN {F("C34.offset", "loc", n)} ELSE {}
         : n \in 1..Len(out.loc)}

DateFails(in, out) ==
  LET z == in.z IN
  UNION {LET e == out.dt[n] IN
         IF e.exc # "" THEN {F("C34.raised", "dt", n)}
         ELSE IF /\ ~DaySkipped(z, e.d)
                 /\ \/ e.l < Day * e.d \/ e.l >= Day * (e.d + 1)
                    \/ (Interp(z, Day * e.d) # {} /\ e.l # Day * e.d)
              THEN {F("C34.date", "dt", n)} ELSE {}
         : n \in 1..Len(out.dt)}

\* every probe of the window was made, once
ShapeOk(in, out) ==
  /\ Len(out.ts) = in.hi - in.lo + 1
  /\ \A n \in 1..Len(out.ts) : out.ts[n].t = in.lo + n - 1
  /\ {<<out.loc[n].l, out.loc[n].f>> : n \in 1..Len(out.loc)} = Locals(in) \X Favs(in.z)
  /\ Len(out.loc) = Cardinality(Locals(in)) * Cardinality(Favs(in.z))
  /\ Len(out.dt) = 3
  /\ \A n \in 1..3 : out.dt[n].d = n - 2

Fails(in, out) ==
  IF ~ShapeOk(in, out) THEN {F("C34.shape", "", 0)}
  ELSE TsFails(in, out) \cup LocFails(in, out) \cup DateFails(in, out)

Clauses(in, out) == {f.c : f \in Fails(in, out)}
Ok(in, out) == Clauses(in, out) = {}

\* ------------------------------------------------------------------------------------------
\* Reference solution: the conversions as moment.py intends them (Index / IndexDt); the midnight of a
\* day is its 00:00 read with IndexDt - or, when 00:00 is skipped, the first instant after the gap (the
\* start of the day, unless the day is skipped as a whole).
RefMidnight(z, d) ==
  LET l == Day * d
  IN IF Interp(z, l) # {} THEN l + z.o[IndexDt(z, l, NoFav)]
     ELSE z.u[MinOf(GapsAt(z, l))]

Ref(in) ==
  LET z == in.z
      TsE(t) == LET l == LocalOf(z, t)
                IN [t |-> t, l |-> l, b |-> l + z.o[IndexDt(z, l, OffAt(z, t))], exc |-> ""]
      LocE(p) == [l |-> p[1], f |-> p[2], o |-> z.o[IndexDt(z, p[1], p[2])], exc |-> ""]
      DtE(d) == LET t == RefMidnight(z, d) IN [d |-> d, t |-> t, l |-> LocalOf(z, t), exc |-> ""]
      fs == SetToSortSeq(Favs(z), LAMBDA a, b : a < b)
      nf == Len(fs)
      nl == in.hi - in.lo + 7
  IN [ts |-> [n \in 1..(in.hi - in.lo + 1) |-> TsE(in.lo + n - 1)],
      loc |-> [n \in 1..(nl * nf) |-> LocE(<<in.lo - 3 + ((n - 1) \div nf), fs[((n - 1) % nf) + 1]>>)],
      dt |-> [n \in 1..3 |-> DtE(n - 2)]]

=============================================================================
