------------------------------ MODULE Migrate ------------------------------
(***************************************************************************)
(* C25 - migrations are total and reach the current schema                 *)
(* (sandbox/grist/migrations.py create_migrations).                        *)
(*                                                                         *)
(* A case is one call  create_migrations(tables of a version-v document):  *)
(*   [v       start version,                                               *)
(*    tables  the populated tables as observed parallel sequences          *)
(*            [rows, cols] (DocActions!FromObsTable),                      *)
(*    ubase   base types of the columns of the user tables,                *)
(*    user / ordinary   ids of the user tables / those that are not        *)
(*            summary tables,                                              *)
(*    actions the returned doc actions as uniform DocActions records, plus *)
(*            `auto` = positions whose row id is None ("next free id"),    *)
(*    exc     exception class name, "" if the call returned]               *)
(* An environment  env = [curn, curv, cur, schemas]  carries facts of the  *)
(* tree under test: SCHEMA_VERSION and its token, the current schema       *)
(* (schema.schema_create_actions()) and the version-v metadata schemas,    *)
(* all as [table -> [column -> base type]].                                *)
(*                                                                         *)
(* The judge is the dumb interpreter of DocActions.tla: the outcome of a   *)
(* migration is what an independent consumer (Node's DocStorage) gets by   *)
(* applying the returned actions to the stored document.                   *)
(***************************************************************************)
EXTENDS DocActions, TLC

MaxOf(S) == CHOOSE x \in S : \A y \in S : y <= x

EmptyTable(base) ==
  [rows |-> {}, cols |-> [cid \in DOMAIN base |-> [x \in {} |-> "n"]], base |-> base]

\* TLC evaluates function constructors lazily and again on every access; a document that went through
\* dozens of actions is then a deep chain of closures.  TLCEval makes the value explicit (it does not
\* change it).
StrictTable(tbl) ==
  [rows |-> tbl.rows,
   cols |-> TLCEval([cid \in DOMAIN tbl.cols |-> TLCEval(tbl.cols[cid])]),
   base |-> TLCEval(tbl.base)]
Strict(doc) == TLCEval([t \in DOMAIN doc |-> StrictTable(doc[t])])
StrictAt(doc, t) == IF t \in DOMAIN doc THEN TLCEval([doc EXCEPT ![t] = StrictTable(@)]) ELSE TLCEval(doc)

\* The stored document of a case: every metadata table of version v and every user table.
DocOf(c, sch) ==
  LET ts == (DOMAIN sch) \cup (DOMAIN c.ubase)
      B(t) == IF t \in DOMAIN c.ubase THEN c.ubase[t] ELSE sch[t]
  IN Strict([t \in ts |-> IF t \in DOMAIN c.tables THEN FromObsTable(c.tables[t], B(t)) ELSE EmptyTable(B(t))])

(***************************************************************************)
(* Row id None in an add = "the next free id", assigned in order by the    *)
(* consumer (SQLite INTEGER PRIMARY KEY).  Anywhere else None addresses no *)
(* row: the id stays the non-id -999999 and the action is ill-formed.      *)
(***************************************************************************)
ResolveAuto(doc, a) ==
  IF Len(a.auto) = 0 \/ a.n # "BulkAddRecord" \/ a.t \notin DOMAIN doc THEN a
  ELSE LET autos == SeqRange(a.auto)
           expl  == {a.r[i] : i \in (1..Len(a.r)) \ autos}
           top   == MaxOf(doc[a.t].rows \cup expl \cup {0})
           Rank(i) == Cardinality({j \in autos : j <= i})
       IN [a EXCEPT !.r = [i \in 1..Len(a.r) |-> IF i \in autos THEN top + Rank(i) ELSE a.r[i]]]

\* [doc |-> document after all actions, ill |-> positions of the actions ill-formed where they stand,
\*  user |-> the user tables under their current names]
RECURSIVE RunFrom(_, _, _, _, _)
RunFrom(doc, as, i, ill, user) ==
  IF i > Len(as) THEN [doc |-> doc, ill |-> ill, user |-> user]
  ELSE LET a == ResolveAuto(doc, as[i])
       IN RunFrom(StrictAt(Apply(doc, a), IF a.n = "RenameTable" THEN a.id2 ELSE a.t), as, i + 1,
                  IF WellFormed(doc, a) THEN ill ELSE ill \cup {i},
                  IF a.n = "RenameTable" /\ a.t \in user THEN (user \ {a.t}) \cup {a.id2}
                  ELSE IF a.n = "RemoveTable" THEN user \ {a.t} ELSE user)
Run(doc, as, user) == RunFrom(doc, as, 1, {}, user)

\* metadata tables whose set of columns / base types differs from the current schema
SchemaDiff(doc, meta, cur) ==
  {t \in meta \cup DOMAIN cur : t \notin meta \/ t \notin DOMAIN cur \/ doc[t].base # cur[t]}

VersionOk(doc, curv) ==
  /\ "_grist_DocInfo" \in DOMAIN doc
  /\ "schemaVersion" \in DOMAIN doc["_grist_DocInfo"].cols
  /\ 1 \in doc["_grist_DocInfo"].rows
  /\ doc["_grist_DocInfo"].cols["schemaVersion"][1] = curv

\* the one action that rewrites schemaVersion
IsVersionUpdate(a, curv) ==
  /\ a.n = "BulkUpdateRecord"
  /\ a.t = "_grist_DocInfo"
  /\ a.r = <<1>>
  /\ DOMAIN a.c = {"schemaVersion"}
  /\ a.c["schemaVersion"] = <<curv>>

\* <<table, column>> of the ordinary user tables whose cells were touched: a cell changed or its column
\* is gone; <<table, "*">> if the table is gone or renamed or a row was added or removed.
\* (Added columns and changed column types touch no existing cell.)
TouchedUser(d0, d1, ordinary) ==
  {<<t, "*">> : t \in {u \in ordinary : u \notin DOMAIN d1 \/ d1[u].rows # d0[u].rows}}
  \cup UNION {{<<t, cid>> : cid \in {k \in DOMAIN d0[t].cols :
                                        \/ k \notin DOMAIN d1[t].cols
                                        \/ \E x \in d0[t].rows : d1[t].cols[k][x] # d0[t].cols[k][x]}}
              : t \in {u \in ordinary : u \in DOMAIN d1 /\ d1[u].rows = d0[u].rows}}

\* Failed clauses of one case; d = what they are about: metadata tables whose schema differs, touched
\* user cells, positions of the ill-formed actions
Verdict(c, env) ==
  IF c.exc # "" THEN [c |-> {"C25.total"}, d |-> [schema |-> {}, user |-> {}, ill |-> {}]]
  ELSE
  LET d0   == DocOf(c, env.schemas[ToString(c.v)])
      user == SeqRange(c.user)
      res  == Run(d0, c.actions, user)
      d1   == res.doc
      meta == (DOMAIN d1) \ res.user
      sd   == SchemaDiff(d1, meta, env.cur)
      tu   == TouchedUser(d0, d1, SeqRange(c.ordinary))
      cur1 == c.v # env.curn \/ (Len(c.actions) = 1 /\ IsVersionUpdate(c.actions[1], env.curv))
  IN [c |-> (IF sd = {} THEN {} ELSE {"C25.schema"})
            \cup (IF VersionOk(d1, env.curv) THEN {} ELSE {"C25.version"})
            \cup (IF cur1 THEN {} ELSE {"C25.current"})
            \cup (IF tu = {} THEN {} ELSE {"C25.user"})
            \cup (IF res.ill = {} THEN {} ELSE {"C25.applicable"}),
      d |-> [schema |-> sd, user |-> tu, ill |-> res.ill]]

Clauses(c, env) == Verdict(c, env).c
Ok(c, env) == Clauses(c, env) = {}

(***************************************************************************)
(* Reference migration: the schema difference as column / table actions,   *)
(* then the schemaVersion update.  Used by MC_Migrate to show that the     *)
(* relation is satisfiable from every start version of the tree under test *)
(* (its metadata schemas are all reachable by additive steps).             *)
(***************************************************************************)
Act(n, t, id, base, cols, r, c) ==
  [n |-> n, t |-> t, r |-> r, c |-> c, id |-> id, id2 |-> "", base |-> base, cols |-> cols, auto |-> <<>>]

RECURSIVE SeqOfSet(_)
SeqOfSet(S) == IF S = {} THEN <<>> ELSE LET x == CHOOSE y \in S : TRUE IN <<x>> \o SeqOfSet(S \ {x})

RefActions(sch, env) ==
  LET cur == env.cur
      newT == SeqOfSet((DOMAIN cur) \ (DOMAIN sch))
      oldT == SeqOfSet((DOMAIN sch) \ (DOMAIN cur))
      pairs(P(_, _)) == SeqOfSet({<<t, cid>> \in UNION {{<<t2, c2>> : c2 \in (DOMAIN cur[t2]) \cup (DOMAIN sch[t2])}
                                                         : t2 \in (DOMAIN cur) \cap (DOMAIN sch)} : P(t, cid)})
      addC == pairs(LAMBDA t, cid : cid \notin DOMAIN sch[t])
      delC == pairs(LAMBDA t, cid : cid \notin DOMAIN cur[t])
      modC == pairs(LAMBDA t, cid : cid \in DOMAIN sch[t] /\ cid \in DOMAIN cur[t] /\ sch[t][cid] # cur[t][cid])
  IN [i \in 1..Len(newT) |->
        Act("AddTable", newT[i], "", "",
            LET cs == SeqOfSet(DOMAIN cur[newT[i]])
            IN [k \in 1..Len(cs) |-> [id |-> cs[k], base |-> cur[newT[i]][cs[k]]]], <<>>, <<>>)]
     \o [i \in 1..Len(oldT) |-> Act("RemoveTable", oldT[i], "", "", <<>>, <<>>, <<>>)]
     \o [i \in 1..Len(addC) |-> Act("AddColumn", addC[i][1], addC[i][2], cur[addC[i][1]][addC[i][2]], <<>>, <<>>, <<>>)]
     \o [i \in 1..Len(delC) |-> Act("RemoveColumn", delC[i][1], delC[i][2], "", <<>>, <<>>, <<>>)]
     \o [i \in 1..Len(modC) |-> Act("ModifyColumn", modC[i][1], modC[i][2], cur[modC[i][1]][modC[i][2]], <<>>, <<>>, <<>>)]
     \o <<Act("BulkUpdateRecord", "_grist_DocInfo", "", "", <<>>, <<1>>, [schemaVersion |-> <<env.curv>>])>>

\* The smallest document of version v: empty metadata tables and the one _grist_DocInfo record.
SchemaCase(v, env, acts) ==
  LET sch == env.schemas[ToString(v)]
      info == sch["_grist_DocInfo"]
  IN [v |-> v, exc |-> "", where |-> "", user |-> <<>>, ordinary |-> <<>>, ubase |-> <<>>,
      tables |-> [t \in {"_grist_DocInfo"} |->
                    [rows |-> <<1>>,
                     cols |-> [cid \in DOMAIN info |->
                                 <<IF cid = "schemaVersion" THEN "#" \o ToString(v) ELSE Default(info[cid])>>]]],
      actions |-> acts]

RefCase(v, env) == SchemaCase(v, env, RefActions(env.schemas[ToString(v)], env))

=============================================================================
