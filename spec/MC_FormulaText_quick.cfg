INIT Init
NEXT Next
CONSTANTS MaxNodes = 3
          LetDepth = 1
          Level = "quick"
          PerMid = 1
          PerLet = 1
          PerBig = 1
          Lanes = 64
INVARIANT SpecSane
CHECK_DEADLOCK FALSE
