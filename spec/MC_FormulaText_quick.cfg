INIT Init
NEXT Next
CONSTANTS MaxNodes = 3
          LetDepth = 1
          Level = "quick"
          Lanes = 64
INVARIANT SpecSane
CHECK_DEADLOCK FALSE
