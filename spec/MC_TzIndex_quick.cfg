INIT Init
NEXT Next
CONSTANTS Half = 6
          MaxTr = 2
          WHalf = 0
          WMaxTr = 0
          MaxOff = 2
INVARIANT SpecSane
INVARIANT GapSane
CHECK_DEADLOCK FALSE
