---------------------------- MODULE Trace_TreeView ----------------------------
(* Judges recorded calls of the real treeview.fix_indents against TreeView!Clauses.              *)
(* Cases: <<[inp |-> [ind, del], out |-> <<<<pos, new>>, ...>>, exc |-> ""]>>                     *)
EXTENDS TreeView, TLC, Json, IOUtils
Cases == JsonDeserialize(IOEnv.TRACE_FILE)
N == Len(Cases)
VARIABLES i, bad
SeqRange(s) == {s[k] : k \in 1..Len(s)}
Judge(c) ==
  IF c.exc # "" THEN {"C36.raised"}
  ELSE Clauses([ind |-> c.inp.ind, del |-> SeqRange(c.inp.del)], c.out)
Init == i = 0 /\ bad = <<>> /\ (N > 0 \/ JsonSerialize(IOEnv.OUT_FILE, <<>>))
Next ==
  /\ i < N
  /\ i' = i + 1
  /\ bad' = LET j == Judge(Cases[i + 1])
            IN IF j = {} THEN bad ELSE Append(bad, [i |-> i + 1, c |-> j])
  /\ (i' < N \/ JsonSerialize(IOEnv.OUT_FILE, bad'))
Spec == Init /\ [][Next]_<<i, bad>>
View == i
=============================================================================
