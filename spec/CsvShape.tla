------------------------------ MODULE CsvShape ------------------------------
(***************************************************************************)
(* C32 - the CSV importer keeps every cell (sandbox/grist/imports/         *)
(* import_csv.py, import_utils.py, parse_data.py).                         *)
(*                                                                         *)
(* Grids of text cells are far too large to enumerate cell by cell (the    *)
(* importer samples the first 100 rows), so a grid is described by a       *)
(* run-length SHAPE: a sequence of segments <<rows, width, kind, hole>> =  *)
(* `rows` equal-looking rows of `width` cells of kind `kind`, the cell in  *)
(* column `hole` (0 = none) being empty.  With headers = 1 the grid starts *)
(* with one full-width row of textual header cells (kind "h").             *)
(*                                                                         *)
(* The text of a cell is a function of the token (kind, row, column); the  *)
(* harness maps texts <-> tokens losslessly (harness/fn_csv.py), so this   *)
(* module speaks about tokens only.  A column (of the written grid and of  *)
(* the returned table alike) is a sequence of maximal RUNS of non-empty    *)
(* cells                                                                   *)
(*     <<k0, len, kind, r0, c>> : rows k0..k0+len-1 hold the tokens        *)
(*                                (kind, r0 + t, c), t = 0..len-1;         *)
(*                                r0 = 0: the kind's text has no row in it *)
(*                                (kind "-": no row and no column, c = 0)  *)
(* everything not covered by a run is an empty cell (or no cell).          *)
(*                                                                         *)
(*   grid = [n |-> number of rows written (header included),               *)
(*           cols |-> <<runs of column 1, runs of column 2, ...>>]         *)
(*   out  = [nt |-> number of tables returned, names |-> <<token, ...>>,   *)
(*           lens |-> <<length of column 1, ...>>, cols |-> <<runs, ...>>] *)
(*          (only the first table is described; nt tells if there are more)*)
(*                                                                         *)
(* Clauses(grid, hdr, out) is the admissible-output relation: exactly what *)
(* the property states, plus the importer's documented and tested intent   *)
(* that leading rows WITHOUT ANY non-empty cell may be skipped.            *)
(***************************************************************************)
EXTENDS Naturals, Integers, Sequences, FiniteSets

Kinds == {"e", "a", "1", "-", "x", "d", "q", "n"}
ConstKinds == {"-"}            \* kinds whose text does not depend on the row
Max(a, b) == IF a >= b THEN a ELSE b
Min(a, b) == IF a <= b THEN a ELSE b

---------------------------------------------------------------------------
(* Runs *)
Mergeable(a, b) ==
  /\ b[1] = a[1] + a[2] /\ a[3] = b[3] /\ a[5] = b[5]
  /\ \/ a[4] = 0 /\ b[4] = 0
     \/ a[4] > 0 /\ b[4] = a[4] + a[2]

RECURSIVE NormAcc(_, _)
NormAcc(runs, acc) ==
  IF runs = <<>> THEN acc
  ELSE LET h == Head(runs) IN
       IF h[2] <= 0 THEN NormAcc(Tail(runs), acc)
       ELSE IF acc # <<>> /\ Mergeable(acc[Len(acc)], h)
       THEN NormAcc(Tail(runs), [acc EXCEPT ![Len(acc)] = <<@[1], @[2] + h[2], @[3], @[4], @[5]>>])
       ELSE NormAcc(Tail(runs), Append(acc, h))
Norm(runs) == NormAcc(runs, <<>>)

\* rows k0..k0+len-1 of a column (given by its runs) hold exactly the tokens of run r moved up by sh
Covered(oruns, r, sh) ==
  LET k0 == r[1] - sh IN
  \E i \in 1..Len(oruns) :
    LET o == oruns[i] IN
    /\ o[1] <= k0 /\ o[1] + o[2] >= k0 + r[2]
    /\ o[3] = r[3] /\ o[5] = r[5]
    /\ IF r[4] = 0 THEN o[4] = 0 ELSE o[4] > 0 /\ o[4] + (k0 - o[1]) = r[4]

---------------------------------------------------------------------------
(* From a shape to the grid it denotes *)
RECURSIVE SumRows(_, _)
SumRows(segs, upto) == IF upto = 0 THEN 0 ELSE segs[upto][1] + SumRows(segs, upto - 1)

RECURSIVE MaxWidth(_, _)
MaxWidth(segs, upto) == IF upto = 0 THEN 0 ELSE Max(segs[upto][2], MaxWidth(segs, upto - 1))

GridWidth(segs, hdr) == IF hdr = 1 THEN Max(1, MaxWidth(segs, Len(segs))) ELSE MaxWidth(segs, Len(segs))

RECURSIVE SegRuns(_, _, _, _)
SegRuns(segs, hdr, c, s) ==     \* runs of column c contributed by segments s..Len(segs)
  IF s > Len(segs) THEN <<>>
  ELSE LET g == segs[s]
           start == hdr + 1 + SumRows(segs, s - 1)
           here == IF c <= g[2] /\ g[3] # "e" /\ g[4] # c /\ g[1] > 0
                   THEN << IF g[3] \in ConstKinds THEN <<start, g[1], g[3], 0, 0>>
                                                   ELSE <<start, g[1], g[3], start, c>> >>
                   ELSE <<>>
       IN here \o SegRuns(segs, hdr, c, s + 1)

GridOf(segs, hdr) ==
  [n |-> hdr + SumRows(segs, Len(segs)),
   cols |-> [c \in 1..GridWidth(segs, hdr) |->
               Norm((IF hdr = 1 THEN << <<1, 1, "h", 0, c>> >> ELSE <<>>) \o SegRuns(segs, hdr, c, 1))]]

---------------------------------------------------------------------------
(* The relation *)
DataRuns(g, hdr, c) == SelectSeq(g.cols[c], LAMBDA r : r[1] > hdr)
NData(g, hdr) == g.n - hdr
\* number of leading data rows without any non-empty cell
LeadBlank(g, hdr) ==
  LET starts == UNION {{g.cols[c][i][1] : i \in {i \in 1..Len(g.cols[c]) : g.cols[c][i][1] > hdr}} :
                       c \in 1..Len(g.cols)}
  IN IF starts = {} THEN NData(g, hdr)
     ELSE (CHOOSE k \in starts : \A m \in starts : k <= m) - (hdr + 1)

\* columns that must be kept: a header, or any non-empty cell
Required(g) == SelectSeq([c \in 1..Len(g.cols) |-> c], LAMBDA c : g.cols[c] # <<>>)
\* returned columns that carry anything: a name, or any non-empty cell
Significant(out) == SelectSeq([j \in 1..Len(out.cols) |-> j],
                              LAMBDA j : out.names[j][1] # "e" \/ out.cols[j] # <<>>)

WellFormed(out) == Len(out.names) = Len(out.cols) /\ Len(out.lens) = Len(out.cols)

\* the failed clauses, as a sequence (a concrete value: cheap to keep in the judge's state)
Failed(g, hdr, out) ==
  IF ~WellFormed(out) THEN <<"C32.malformed">>
  ELSE
  LET req == Required(g)
      sig == Significant(out)
      both == Min(Len(req), Len(sig))
      lead == LeadBlank(g, hdr)
      \* the returned columns have equal length
      EqualLengths == \A i, j \in 1..Len(out.lens) : out.lens[i] = out.lens[j]
      \* one entry per data row (leading rows with no non-empty cell may be skipped)
      OnePerRow == \A j \in 1..Len(out.lens) : (NData(g, hdr) - out.lens[j]) \in 0..lead
      \* columns with a header or any non-empty cell are kept (and none is invented)
      Kept == Len(sig) >= Len(req)
      NoExtra == Len(sig) <= Len(req)
      \* every non-empty data cell's text at its row and column
      Cells == \A j \in 1..both :
                 LET oc == Norm(out.cols[sig[j]])
                     sh == g.n - out.lens[sig[j]]
                     dr == DataRuns(g, hdr, req[j])
                 IN \A i \in 1..Len(dr) : Covered(oc, dr[i], sh)
      \* with headers: a kept column is named by its header cell
      Headers == hdr = 1 => \A j \in 1..both : out.names[sig[j]] = <<"h", 0, req[j]>>
  IN
  (IF out.nt <= 1 THEN <<>> ELSE <<"C32.tables">>) \o
  (IF EqualLengths THEN <<>> ELSE <<"C32.equal">>) \o
  (IF OnePerRow THEN <<>> ELSE <<"C32.rows">>) \o
  (IF Kept THEN <<>> ELSE <<"C32.kept">>) \o
  (IF NoExtra THEN <<>> ELSE <<"C32.extra">>) \o
  (IF Cells THEN <<>> ELSE <<"C32.cell">>) \o
  (IF Headers THEN <<>> ELSE <<"C32.header">>)

Clauses(g, hdr, out) == LET f == Failed(g, hdr, out) IN {f[i] : i \in 1..Len(f)}

Ok(g, hdr, out) == Failed(g, hdr, out) = <<>>

---------------------------------------------------------------------------
(* Reference outputs: show that the relation is satisfiable on every grid  *)
(* (skip = how many of the leading blank data rows the importer skips).    *)
Ref(g, hdr, skip) ==
  LET req == Required(g)
      sh == hdr + skip
  IN [nt |-> IF req = <<>> THEN 0 ELSE 1,
      names |-> [j \in 1..Len(req) |-> IF hdr = 1 THEN <<"h", 0, req[j]>> ELSE <<"e", 0, 0>>],
      lens |-> [j \in 1..Len(req) |-> g.n - sh],
      cols |-> [j \in 1..Len(req) |->
                  LET dr == DataRuns(g, hdr, req[j])
                  IN [i \in 1..Len(dr) |-> <<dr[i][1] - sh, dr[i][2], dr[i][3], dr[i][4], dr[i][5]>>]]]

\* a wrong output: the last required column is lost (must be rejected)
DropLast(o) ==
  [nt |-> o.nt, names |-> SubSeq(o.names, 1, Len(o.names) - 1),
   lens |-> SubSeq(o.lens, 1, Len(o.lens) - 1), cols |-> SubSeq(o.cols, 1, Len(o.cols) - 1)]
=============================================================================
