------------------------------ MODULE Schedule ------------------------------
(***************************************************************************)
(* C35 - SCHEDULE yields exactly the scheduled occurrences                 *)
(* (sandbox/grist/functions/schedule.py).                                  *)
(*                                                                         *)
(* Times are whole seconds since 2000-01-01 00:00:00 (naive wall clock;    *)
(* every value met here is in 2001..2067 and fits 32 bits).  A start that  *)
(* carries microseconds is  start + eps,  0 < eps < 1 s, written           *)
(* [start, sub = 1].                                                       *)
(*                                                                         *)
(* A schedule is kept at the level of its documented syntax:               *)
(*   unit  1..7 = year month week day hour minute second,  n = multiple,   *)
(*   slots = sequence of slots, a slot = sequence of parts                 *)
(*   part  = [k, a, b, c]:                                                 *)
(*     "date"  a = month 1..12, b = day of month       Jan-15, 1/15        *)
(*     "mday"  a = day of month                        /15                 *)
(*     "wday"  a = 0..6, Sunday = 0                    Mo, monday          *)
(*     "time"  a = hour as written, b = minute,        9am 9:30pm 15:45    *)
(*             c = 0 (24 h) | 1 (am) | 2 (pm)                              *)
(*     "mins"  a = minute of the hour                  :45                 *)
(*     "delta" a = count, b = unit 1..7 (y m w d H M S)   +1d +2w +30S     *)
(* The specification gives the MEANING of that syntax (offset of a slot,   *)
(* which parts are allowed where), the calendar, the set of occurrences,   *)
(* and the admissible observation of one SCHEDULE call.                    *)
(***************************************************************************)
EXTENDS Naturals, Integers, Sequences, FiniteSets

DAY == 86400
UnitSecs == <<0, 0, 7 * DAY, DAY, 3600, 60, 1>>     \* fixed-length units; year, month: calendar

(***************************************************************************)
(* Civil calendar (Gregorian), day 0 = 2000-01-01, a Saturday.             *)
(***************************************************************************)
IsLeap(y) == (y % 4 = 0 /\ y % 100 # 0) \/ y % 400 = 0
DaysInMonth(y, m) == IF m = 2 THEN (IF IsLeap(y) THEN 29 ELSE 28)
                     ELSE IF m \in {4, 6, 9, 11} THEN 30 ELSE 31
LeapsUpTo(x) == x \div 4 - x \div 100 + x \div 400            \* leap years in 1..x
DaysBeforeYear(y) == 365 * (y - 2000) + LeapsUpTo(y - 1) - LeapsUpTo(1999)
CumDays == <<0, 31, 59, 90, 120, 151, 181, 212, 243, 273, 304, 334>>
DaysBeforeMonth(y, m) == CumDays[m] + (IF m > 2 /\ IsLeap(y) THEN 1 ELSE 0)
DaysFromCivil(y, m, d) == DaysBeforeYear(y) + DaysBeforeMonth(y, m) + d - 1

YearOf(z) == LET g == 2000 + z \div 366       \* never above the true year, at most one below (z < 25000)
             IN CHOOSE y \in g..(g + 1) : DaysBeforeYear(y) <= z /\ z < DaysBeforeYear(y + 1)
MonthOf(y, r) == LET g == r \div 32 + 1      \* never above the true month, at most one below
                 IN CHOOSE m \in g..(IF g < 12 THEN g + 1 ELSE 12) :
                      DaysBeforeMonth(y, m) <= r /\ (m = 12 \/ r < DaysBeforeMonth(y, m + 1))
Civil(z) == LET y == YearOf(z)
                r == z - DaysBeforeYear(y)
                m == MonthOf(y, r)
            IN [y |-> y, m |-> m, d |-> r - DaysBeforeMonth(y, m) + 1]
Weekday(z) == (z + 6) % 7                                     \* Sunday = 0 ... Saturday = 6

DayOf(t) == t \div DAY
SecOfDay(t) == t % DAY

\* Months are counted as y * 12 + (m - 1).
MonthIdx(z) == LET c == Civil(z) IN c.y * 12 + (c.m - 1)
MonthStart(M) == DaysFromCivil(M \div 12, (M % 12) + 1, 1) * DAY      \* midnight of the first of month M

(***************************************************************************)
(* Unit boundary at or before t.  Weeks start on Sunday.                   *)
(***************************************************************************)
RoundDown(t, u) ==
  CASE u = 1 -> DaysFromCivil(Civil(DayOf(t)).y, 1, 1) * DAY
    [] u = 2 -> LET c == Civil(DayOf(t)) IN DaysFromCivil(c.y, c.m, 1) * DAY
    [] u = 3 -> (DayOf(t) - Weekday(DayOf(t))) * DAY
    [] u = 4 -> DayOf(t) * DAY
    [] u = 5 -> t - (t % 3600)
    [] u = 6 -> t - (t % 60)
    [] u = 7 -> t

\* j units after a unit boundary b (month- and year-boundaries are starts of a month)
AddUnits(b, u, j) == IF u <= 2 THEN MonthStart(MonthIdx(DayOf(b)) + (IF u = 1 THEN 12 * j ELSE j))
                     ELSE b + j * UnitSecs[u]

(***************************************************************************)
(* Meaning of slots.                                                       *)
(***************************************************************************)
Kinds == {"date", "mday", "wday", "time", "mins", "delta"}
Hours24(h, ap) == IF ap = 0 THEN h ELSE (h % 12) + (IF ap = 2 THEN 12 ELSE 0)     \* 12am = 0:00, 12pm = 12:00

PartMonths(p) == IF p.k = "date" THEN p.a - 1
                 ELSE IF p.k = "delta" /\ p.b = 1 THEN 12 * p.a
                 ELSE IF p.k = "delta" /\ p.b = 2 THEN p.a
                 ELSE 0
PartSecs(p) == CASE p.k = "date" -> (p.b - 1) * DAY
                 [] p.k = "mday" -> (p.a - 1) * DAY
                 [] p.k = "wday" -> p.a * DAY
                 [] p.k = "time" -> Hours24(p.a, p.c) * 3600 + p.b * 60
                 [] p.k = "mins" -> p.a * 60
                 [] p.k = "delta" -> IF p.b <= 2 THEN 0 ELSE p.a * UnitSecs[p.b]

RECURSIVE SumMonths(_), SumSecs(_)
SumMonths(s) == IF s = <<>> THEN 0 ELSE PartMonths(Head(s)) + SumMonths(Tail(s))
SumSecs(s) == IF s = <<>> THEN 0 ELSE PartSecs(Head(s)) + SumSecs(Tail(s))
Off(slot) == [mo |-> SumMonths(slot), s |-> SumSecs(slot)]

\* the calendar units a part speaks about (a unit may be mentioned once per slot)
PartUnits(p) == CASE p.k = "date" -> <<2, 4>>
                  [] p.k = "mday" -> <<4>>
                  [] p.k = "wday" -> <<4>>
                  [] p.k = "time" -> <<5, 6>>
                  [] p.k = "mins" -> <<6>>
                  [] p.k = "delta" -> <<p.b>>
RECURSIVE SlotUnits(_)
SlotUnits(s) == IF s = <<>> THEN <<>> ELSE PartUnits(Head(s)) \o SlotUnits(Tail(s))
Range(s) == {s[i] : i \in 1..Len(s)}

AllowedKinds(u) == CASE u = 1 -> {"date", "time", "delta"}
                     [] u = 2 -> {"mday", "time", "delta"}
                     [] u = 3 -> {"wday", "time", "delta"}
                     [] u = 4 -> {"time", "delta"}
                     [] u = 5 -> {"mins", "delta"}
                     [] OTHER -> {"delta"}

\* the parts this specification gives a meaning to (anything else is outside its scope)
PartInDomain(p) ==
  /\ p.k \in Kinds
  /\ CASE p.k = "date" -> p.a \in 1..12 /\ p.b \in 1..31
       [] p.k = "mday" -> p.a \in 1..31
       [] p.k = "wday" -> p.a \in 0..6
       [] p.k = "time" -> /\ p.b \in 0..59
                          /\ (p.c = 0 /\ p.a \in 0..23) \/ (p.c \in {1, 2} /\ p.a \in 1..12)
       [] p.k = "mins" -> p.a \in 0..59
       [] p.k = "delta" -> p.a \in Nat /\ p.b \in 1..7
InDomain(in) ==
  /\ in.unit \in 1..7 /\ in.n \in Nat \ {0} /\ Len(in.slots) >= 1
  /\ \A i \in 1..Len(in.slots) :
       Len(in.slots[i]) >= 1 /\ \A j \in 1..Len(in.slots[i]) : PartInDomain(in.slots[i][j])

\* a schedule made of well-formed parts is VALID iff every part is of a kind available for the
\* interval's unit and no slot mentions a unit twice; otherwise it is an invalid schedule string
SlotValid(u, slot) ==
  /\ \A j \in 1..Len(slot) : slot[j].k \in AllowedKinds(u)
  /\ LET us == SlotUnits(slot) IN Cardinality(Range(us)) = Len(us)
StructValid(in) == \A i \in 1..Len(in.slots) : SlotValid(in.unit, in.slots[i])

(***************************************************************************)
(* Precondition of the property: slots listed in increasing order, all     *)
(* inside one interval.  Months have 28..31 days, so the comparison uses   *)
(* bounds; month offsets are used with month-/year-based intervals only    *)
(* (whose boundaries are firsts of a month: no day-of-month overflow).     *)
(***************************************************************************)
D28 == 28 * DAY
D31 == 31 * DAY
MonthsIn(u, n) == IF u = 1 THEN 12 * n ELSE IF u = 2 THEN n ELSE 0
Within(u, n, o) ==
  IF u \in {1, 2}
  THEN \/ o.mo < MonthsIn(u, n) /\ o.s < D28
       \/ o.mo * D31 + o.s < n * (IF u = 1 THEN 365 ELSE 28) * DAY
  ELSE o.mo = 0 /\ o.s < n * UnitSecs[u]
Before(o1, o2) ==
  \/ o1.mo = o2.mo /\ o1.s < o2.s
  \/ o1.mo < o2.mo /\ o1.s < D28
  \/ o1.mo * D31 + o1.s < o2.mo * D28 + o2.s
Pre(in) ==
  LET offs == [i \in 1..Len(in.slots) |-> Off(in.slots[i])]
  IN /\ \A i \in 1..Len(offs) : Within(in.unit, in.n, offs[i])
     /\ \A i \in 1..(Len(offs) - 1) : Before(offs[i], offs[i + 1])

(***************************************************************************)
(* The occurrences.                                                        *)
(***************************************************************************)
Base(in) == RoundDown(in.start, in.unit)
Cnt(in) == IF in.count > 0 THEN in.count ELSE 0
InRange(in, t) == t >= in.start + in.sub /\ (in.hasEnd = 0 \/ t <= in.end)    \* t <= end + eps  <=>  t <= end

\* boundary + k intervals + slot.  Month offsets occur with month-/year-based units only (Pre), where
\* boundary + k intervals + o.mo months is again the start of a month.
PosAt(b, M0, u, n, k, o) ==
  IF u <= 2 THEN MonthStart(M0 + k * MonthsIn(u, n) + o.mo) + o.s
  ELSE b + k * n * UnitSecs[u] + o.s
Pos(in, k, i) == LET b == Base(in)
                 IN PosAt(b, IF in.unit <= 2 THEN MonthIdx(DayOf(b)) ELSE 0, in.unit, in.n, k, Off(in.slots[i]))

\* Every interval k >= 1 lies wholly after start, so the first Cnt elements at or after start of the
\* infinite set { boundary + k * interval + slot : k >= 0 } are among those with k <= Cnt.
\* CandSeq lists them interval by interval, slot by slot.
CandSeq(in) ==
  LET L == Len(in.slots)
      offs == [i \in 1..L |-> Off(in.slots[i])]
      b == Base(in)
      M0 == IF in.unit <= 2 THEN MonthIdx(DayOf(b)) ELSE 0
  IN [j \in 1..((Cnt(in) + 1) * L) |->
        PosAt(b, M0, in.unit, in.n, (j - 1) \div L, offs[((j - 1) % L) + 1])]

SetMin(S) == CHOOSE m \in S : \A x \in S : m <= x
RECURSIVE SortedSeq(_)
SortedSeq(S) == IF S = {} THEN <<>> ELSE LET m == SetMin(S) IN <<m>> \o SortedSeq(S \ {m})
Take(s, n) == IF Len(s) <= n THEN s ELSE SubSeq(s, 1, n)
Increasing(s) == \A j \in 1..(Len(s) - 1) : s[j] < s[j + 1]

\* the definition: the first Cnt elements, in increasing order, of the set of occurrences in range
OccBySet(in) == LET c == CandSeq(in)
                IN Take(SortedSeq({c[j] : j \in {q \in 1..Len(c) : InRange(in, c[q])}}), Cnt(in))
\* the same value, computed without sorting when the listing is already increasing (it always is
\* under Pre; MC_Schedule checks both facts on the bounded model)
Occ(in) == LET c == CandSeq(in)
               Test(t) == InRange(in, t)
           IN IF Increasing(c) THEN Take(SelectSeq(c, Test), Cnt(in)) ELSE OccBySet(in)

(***************************************************************************)
(* Admissible observation of one call.  obs = [out : seconds, us : the     *)
(* microsecond fields of the results, exc : exception class or ""].        *)
(***************************************************************************)
Clauses(in, obs) ==
  IF obs.exc # "" THEN {"C35.raised"}
  ELSE (IF obs.out = Occ(in) THEN {} ELSE {"C35.occ"}) \cup
       (IF \A j \in 1..Len(obs.us) : obs.us[j] = 0 THEN {} ELSE {"C35.usec"}) \cup
       (IF \A j \in 1..(Len(obs.out) - 1) : obs.out[j] < obs.out[j + 1] THEN {} ELSE {"C35.order"}) \cup
       (IF \A j \in 1..Len(obs.out) : InRange(in, obs.out[j]) THEN {} ELSE {"C35.range"}) \cup
       (IF Len(obs.out) <= Cnt(in) THEN {} ELSE {"C35.count"})

\* "PRE": the case is outside what the property speaks about (the harness must not produce such
\* cases from the bounded model; random cases outside are discarded and counted).
Verdict(in, lex, obs) ==
  IF lex = 1 THEN (IF obs.exc = "ValueError" THEN {} ELSE {"C35.invalid"})
  ELSE IF ~InDomain(in) THEN {"PRE"}
  ELSE IF ~StructValid(in) THEN (IF obs.exc = "ValueError" THEN {} ELSE {"C35.invalid"})
  ELSE IF ~Pre(in) THEN {"PRE"}
  ELSE Clauses(in, obs)

Ref(in) == [out |-> Occ(in), us |-> [j \in 1..Len(Occ(in)) |-> 0], exc |-> ""]
Ok(in, obs) == Verdict(in, 0, obs) = {}

(***************************************************************************)
(* Sanity theorems checked by TLC on every input of the bounded model      *)
(* (MC_Schedule!SpecSane): they restate the documented meaning of the      *)
(* syntax independently of the offset arithmetic above.                    *)
(***************************************************************************)
CivilT(t) == LET c == Civil(DayOf(t)) s == SecOfDay(t)
             IN [y |-> c.y, m |-> c.m, d |-> c.d, wd |-> Weekday(DayOf(t)),
                 H |-> s \div 3600, M |-> (s % 3600) \div 60, S |-> s % 60]
HasKind(slot, k) == \E j \in 1..Len(slot) : slot[j].k = k
\* a slot without "+N unit" parts denotes civil fields directly
Denotes(u, slot, c) ==
  /\ \A j \in 1..Len(slot) :
       LET p == slot[j]
       IN CASE p.k = "date" -> c.m = p.a /\ c.d = p.b
            [] p.k = "mday" -> c.d = p.a
            [] p.k = "wday" -> c.wd = p.a
            [] p.k = "time" -> c.H = Hours24(p.a, p.c) /\ c.M = p.b /\ c.S = 0
            [] p.k = "mins" -> c.M = p.a /\ c.S = 0
            [] OTHER -> TRUE
  /\ (u <= 4 /\ ~HasKind(slot, "time")) => (c.H = 0 /\ c.M = 0 /\ c.S = 0)     \* midnight by default
CalendarSane(t) ==
  LET c == Civil(DayOf(t))
  IN /\ c.m \in 1..12 /\ c.d \in 1..DaysInMonth(c.y, c.m)
     /\ DaysFromCivil(c.y, c.m, c.d) = DayOf(t)
     /\ (c.m = 12 /\ c.d = 31) <=> Civil(DayOf(t) + 1) = [y |-> c.y + 1, m |-> 1, d |-> 1]
     /\ Weekday(DayOf(t) + 1) = (Weekday(DayOf(t)) + 1) % 7
Sane(in) ==
  (InDomain(in) /\ StructValid(in)) =>
    LET e == Occ(in)
        f == Occ([in EXCEPT !.hasEnd = 0])
    IN /\ Pre(in)
       /\ Increasing(CandSeq(in)) /\ e = OccBySet(in)
       /\ Clauses(in, [out |-> e, us |-> [j \in 1..Len(e) |-> 0], exc |-> ""]) = {}
       /\ CalendarSane(in.start)
       /\ Base(in) <= in.start /\ in.start < AddUnits(Base(in), in.unit, 1)
       /\ Len(f) = Cnt(in)                                     \* without an end there are always `count` results
       /\ Len(e) < Cnt(in) => (in.hasEnd = 1 /\ f[Len(e) + 1] > in.end)
       /\ \A j \in 1..Len(e) : e[j] = f[j]                     \* an end only truncates
       /\ \A j \in 1..Len(e) :
            LET c == CivilT(e[j])
            IN \E i \in 1..Len(in.slots) :
                 HasKind(in.slots[i], "delta") \/ Denotes(in.unit, in.slots[i], c)
       /\ Len(in.slots) = 1 =>                                   \* one slot: results are one interval apart
            \A j \in 1..(Len(e) - 1) :
              IF in.unit \in {1, 2}
              THEN LET a == CivilT(e[j]) b == CivilT(e[j + 1])
                   IN (b.y * 12 + b.m) - (a.y * 12 + a.m) = MonthsIn(in.unit, in.n)
                      /\ <<a.d, a.H, a.M, a.S>> = <<b.d, b.H, b.M, b.S>>
              ELSE e[j + 1] - e[j] = in.n * UnitSecs[in.unit]
=============================================================================
