----------------------------- MODULE MC_Upsert -----------------------------
(* Bounded design model of Upsert: one state per input (and one per table).                       *)
(*                                                                                                *)
(*   Inputs == Tables \X Requests \X Options                                                      *)
(*   Tables    every table of <= MaxRows rows (ids 1..n) whose key cells (k1, k2) are in KeyRows  *)
(*             (k1 \in {1, 2}, k2 \in {"a", "1"}); v = 0                                          *)
(*   Requests  BulkAddOrUpdateRecord with <= MaxLen input rows: every `require` over the column   *)
(*             sets {}, {k1}, {k2}, {k1, k2} with values from RK1 (RK1T when both columns are     *)
(*             given) / RK2 - these include "1" for the Int column and 1 for the Text column -,   *)
(*             col_values {} or {v}; `require` over at most one column with col_values that       *)
(*             overwrite a key column ({k1} from CK1 or {k2, v} from CK2); value lists of         *)
(*             different lengths; AddOrUpdateRecord for every one-row request                     *)
(*   Options   on_many \in {first, all, none, other} x update x add x allow_empty_require given   *)
(*             explicitly, and the combinations of "not given" with a non-default value           *)
(*             (on_many \in DefOnMany)                                                            *)
(*                                                                                                *)
(* SpecSane: the outcome of the reference under both lookup disciplines (table at the start /     *)
(* table as it is now) is admitted by Upsert!Clauses, i.e. the relation is satisfiable on every   *)
(* input and really leaves that choice open.  The three factors are written out as JSON; the      *)
(* harness forms their product (and checks its size against the number of states TLC found) and   *)
(* runs the real engine on every element.                                                         *)
EXTENDS Upsert, TLC, Json, IOUtils, SequencesExt, FiniteSetsExt
CONSTANTS MaxRows, MaxLen, KeyRows, RK1, RK1T, RK2, CK1, CK2, DefOnMany

RK1Std  == {I(1), I(2), NS(1)}
RK1Min  == {I(1), NS(1)}
RK2Std  == {S("a"), I(1)}
RK2Rich == {S("a"), NS(1), I(1)}
CK1Std  == {I(2), NS(1)}
CK1Min  == {NS(1)}
CK2Std  == {S("a"), I(1)}
CK2Min  == {I(1)}

KeyRows4 == {I(1), I(2)} \X {S("a"), NS(1)}
KeyRows3 == KeyRows4 \ {<<I(2), NS(1)>>}
Tables == UNION {{[k \in 1..n |-> [id |-> k, k1 |-> f[k][1], k2 |-> f[k][2], v |-> I(0)]] :
                    f \in [1..n -> KeyRows]} : n \in 0..MaxRows}

Col(c, vals) == [col |-> c, vals |-> vals]
OneCol(n, K1) == {<<Col("k1", a)>> : a \in [1..n -> K1]} \cup {<<Col("k2", b)>> : b \in [1..n -> RK2]}
Requires(n) == {<<>>} \cup OneCol(n, RK1) \cup
               {<<Col("k1", a), Col("k2", b)>> : a \in [1..n -> RK1T], b \in [1..n -> RK2]}
VList(n) == [i \in 1..n |-> I(6 + i)]
PlainVals(n) == {<<>>, <<Col("v", VList(n))>>}
KeyVals(n) == {<<Col("k1", a)>> : a \in [1..n -> CK1]} \cup
              {<<Col("k2", b), Col("v", VList(n))>> : b \in [1..n -> CK2]}

Req(kind, r, c) == [kind |-> kind, require |-> r, colvals |-> c]
Shapes(kind, n) == {Req(kind, r, c) : r \in Requires(n), c \in PlainVals(n)} \cup
                   (IF n = 0 THEN {}
                    ELSE {Req(kind, r, c) : r \in {<<>>} \cup OneCol(n, RK1T), c \in KeyVals(n)})

Mismatched ==
  {Req("bulk", <<Col("k1", a)>>, <<Col("v", VList(m))>>) :
     a \in UNION {[1..n -> {I(1), I(2)}] : n \in 0..2}, m \in 0..2} \cup
  {Req("bulk", <<Col("k1", <<I(1)>>), Col("k2", b)>>, c) :
     b \in {<<>>, <<S("a"), S("b")>>}, c \in {<<>>, <<Col("v", <<I(7)>>)>>}} \cup
  {Req("bulk", <<>>, <<Col("k1", <<I(2)>>), Col("v", <<I(7), I(8)>>)>>)}

Requests == UNION {Shapes("bulk", n) : n \in 0..MaxLen} \cup Shapes("single", 1) \cup
            {q \in Mismatched : BadLengths(q)}

Opts(om, u, a, e) == [on_many |-> om, update |-> u, add |-> a, allow |-> e]
Options == {Opts(om, u, a, e) : om \in {"first", "all", "none", "other"}, u \in {"T", "F"},
                                a \in {"T", "F"}, e \in {"T", "F"}} \cup
           {Opts(om, u, a, e) : om \in DefOnMany, u \in {"-", "F"}, a \in {"-", "F"}, e \in {"-", "T"}} \cup
           {Opts("-", "-", "-", "-")}

Input(t, q, o) == [kind |-> q.kind, rows |-> t, require |-> q.require, colvals |-> q.colvals, opts |-> o]

ASSUME /\ "OUT_FILE" \in DOMAIN IOEnv
       => JsonSerialize(IOEnv.OUT_FILE, [tables |-> SetToSeq(Tables), requests |-> SetToSeq(Requests),
                                         options |-> SetToSeq(Options)])

\* TLC computes initial states in one thread, successor states in parallel: the initial states fix
\* the table only (no request yet), one step chooses the request and the options.
VARIABLE input
NoRequest(t) == [kind |-> "none", rows |-> t, require |-> <<>>, colvals |-> <<>>,
                 opts |-> Opts("-", "-", "-", "-")]
Init == \E t \in Tables : input = NoRequest(t)
Next == /\ input.kind = "none"
        /\ \E q \in Requests, o \in Options : input' = Input(input.rows, q, o)
SpecSane == input.kind = "none" \/
            (Ok(input, RefObs(input, "start")) /\ Ok(input, RefObs(input, "now")))
\* the arguments the reference rejects are exactly the four classes of the property
RejectSane == input.kind = "none" \/
              (RefObs(input, "start").rej <=>
                 (BadOnMany(input) \/ EmptyRequire(input) \/ BadLengths(input) \/ DupRequire(input)))
=============================================================================
