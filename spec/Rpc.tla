--------------------------------- MODULE Rpc ---------------------------------
(***************************************************************************)
(* C24 - everything sent to Node is marshal-safe and round-trips; a reply  *)
(* is never lost after the engine has already applied the change.          *)
(* (sandbox/grist/sandbox.py Sandbox.run / _send_to_js / call_external,    *)
(*  main.py run(): apply_user_actions, fetch_table, fetch_meta_tables,     *)
(*  objtypes.py encode_object / decode_object.)                            *)
(*                                                                         *)
(* Part 1 is the admissible-observation RELATION of the property over what *)
(* Node can see of one call (Clauses) and of one encoded value (RtClauses).*)
(* Part 2 is a state machine of the call/reply loop AS CODED:              *)
(*                                                                         *)
(*     ret = self._functions[fname](args..) <- the engine applies here   *)
(*     self._send_to_js(DATA, ret)            <- marshal.dumps(ret) here   *)
(*   except Exception as e:                                                *)
(*     self._send_to_js(EXC, "%s %s" % ...)                                *)
(*                                                                         *)
(* i.e. the reply is serialised AFTER the document was changed, and a      *)
(* failure of marshal.dumps is turned into an EXC reply.  The machine has  *)
(* two switches: MarshalTotal (marshal.dumps accepts everything the engine *)
(* puts into a message) and Revert (a hypothetical repair: undo the bundle *)
(* when its reply cannot be serialised).  MC_Rpc shows: as coded, Atomic   *)
(* holds iff MarshalTotal; with Revert it holds regardless (but the reply  *)
(* is still not delivered).  So the property reduces to "marshal.dumps     *)
(* never fails on a reply", which is what the conformance part observes on *)
(* the real loop.                                                          *)
(***************************************************************************)
EXTENDS Naturals, Sequences, FiniteSets

(***************************************************************************)
(* Call classes.  A class fixes the function, whether the arguments are    *)
(* valid, whether Python calls back into Node while serving it             *)
(* (sandbox.call_external, e.g. ConvertFromColumn -> "convertFromColumn"), *)
(* and whether a message produced for it carries a cell value ("hostile":  *)
(* the classes on which marshal.dumps is not trivially total).             *)
(***************************************************************************)
PlainKinds == {"apply_ok", "apply_bad", "apply_ext_data", "apply_ext_exc", "apply_ext_nested",
               "fetch_ok", "fetch_bad", "fetch_meta", "echo", "unknown", "fail"}
HostileKinds == {"apply_hostile", "apply_wire", "fetch_hostile", "apply_ext_hostile"}
Kinds == PlainKinds \cup HostileKinds

Name(k) ==
  CASE k \in {"apply_ok", "apply_bad", "apply_ext_data", "apply_ext_exc", "apply_ext_nested",
              "apply_hostile", "apply_wire", "apply_ext_hostile"} -> "apply_user_actions"
    [] k \in {"fetch_ok", "fetch_bad", "fetch_hostile"} -> "fetch_table"
    [] k = "fetch_meta" -> "fetch_meta_tables"
    [] k = "echo" -> "test_echo"
    [] k = "fail" -> "test_fail"
    [] OTHER -> "no_such_function"

\* the arguments are valid: the function itself has no reason to raise
ArgsValid(k) == k \notin {"apply_bad", "fetch_bad", "unknown", "fail"}
\* "apply_wire": a bundle that puts arbitrary data of Node's into a typed data cell.  The property does not say
\* which data a cell must accept: the engine may reject the bundle (and then reverts it) or apply it.
MayReject(k) == k = "apply_wire"
\* what Node answers to the nested CALL made while serving k ("none": there is no nested call)
ExtAnswer(k) ==
  CASE k \in {"apply_ext_data", "apply_ext_nested", "apply_ext_hostile"} -> "DATA"
    [] k = "apply_ext_exc" -> "EXC"
    [] OTHER -> "none"
\* the call changes the document when it runs to completion
Mutating(k) == Name(k) = "apply_user_actions" /\ ArgsValid(k) /\ ExtAnswer(k) # "EXC"
\* the reply (or the nested CALL) carries cell values
ReplyHostile(k) == k \in {"apply_hostile", "apply_wire", "fetch_hostile"}
CallHostile(k) == k = "apply_ext_hostile"
\* the statement: "every apply_user_actions and fetch_table reply can be delivered"
GuaranteedNames == {"apply_user_actions", "fetch_table", "fetch_meta_tables"}
Guaranteed(k) == Name(k) \in GuaranteedNames /\ ArgsValid(k) /\ ~MayReject(k) /\ ExtAnswer(k) # "EXC"

(***************************************************************************)
(* Part 1: the relation.                                                   *)
(* One observed call:                                                      *)
(*   [kind, reply : "DATA" | "EXC" | "BROKEN" (no well-formed reply),      *)
(*    w0, w1 : token of a witness cell read through fetch_table before and *)
(*             after the call ("?" = could not be read); the witness is    *)
(*             written by the same bundle, so w1 # w0 <=> the bundle was   *)
(*             applied,                                                    *)
(*    hasw : the DATA reply's stored actions contain the witness update,   *)
(*    sync : the next call on the same stream was answered with ITS reply] *)
(***************************************************************************)
Changed(c) == c.w0 # "?" /\ c.w1 # "?" /\ c.w0 # c.w1
Unchanged(c) == c.w0 # "?" /\ c.w0 = c.w1

\* what the machine of part 2 yields for a plain class (deterministic): <<reply, changed>>
Expected(k) ==
  IF ~ArgsValid(k) \/ ExtAnswer(k) = "EXC" THEN <<"EXC", FALSE>>
  ELSE <<"DATA", Mutating(k)>>

Clauses(c) ==
  (IF \/ (c.reply # "DATA" /\ Changed(c))                                 \* applied, but the reply is lost
      \/ (c.reply = "DATA" /\ Name(c.kind) = "apply_user_actions" /\ Changed(c) /\ ~c.hasw)
                                                                          \* applied, reply does not explain it
   THEN {"C24.atomic"} ELSE {})
  \cup (IF Guaranteed(c.kind) /\ c.reply # "DATA" THEN {"C24.delivered"} ELSE {})
  \cup (IF c.reply = "BROKEN" \/ ~c.sync THEN {"C24.alive"} ELSE {})
  \cup (IF /\ c.kind \in PlainKinds /\ c.reply # "BROKEN" /\ c.sync
           /\ \/ c.reply # Expected(c.kind)[1]
              \/ (Expected(c.kind)[2] /\ Unchanged(c))
              \/ (~Expected(c.kind)[2] /\ Changed(c) /\ c.reply = "DATA")
        THEN {"C24.conformance"} ELSE {})        \* the loop did not behave like the machine below at all

(* One encoded value:                                                      *)
(*   [enc   : token of enc = encode_object(v)                              *)
(*    enc2  : token of encode_object(decode_object(enc))                   *)
(*    dumps : marshal.dumps(enc) succeeded                                 *)
(*    back  : token of marshal.loads(marshal.dumps(enc)), "" if none]      *)
RtClauses(r) ==
  (IF r.enc # r.enc2 THEN {"C24.roundtrip"} ELSE {})
  \cup (IF ~r.dumps \/ r.back # r.enc THEN {"C24.marshal"} ELSE {})

CaseClauses(case) ==
  UNION {Clauses(case.calls[i]) : i \in 1..Len(case.calls)}
  \cup UNION {RtClauses(case.rts[i]) : i \in 1..Len(case.rts)}

KnownKinds(case) == \A i \in 1..Len(case.calls) : case.calls[i].kind \in Kinds

(***************************************************************************)
(* Part 2: the machine.                                                    *)
(*   script  the calls Node will issue, one after the other                *)
(*   py      Python's control stack: "serve" frames (Sandbox.run serving a  *)
(*           CALL) and "ext" frames (call_external waiting in              *)
(*           run(break_on_response=True))                                  *)
(*   nd      Node's stack: "wait" (a CALL was sent, its reply is awaited)  *)
(*           and "handle" (serving a CALL that came from Python)           *)
(*   c2s,s2c the two pipes (FIFO)                                          *)
(*   doc     version of the engine's document (number of applied bundles)  *)
(*   node    version Node believes in (bundles whose DATA reply it got)    *)
(*   log     what Node observed of each top-level call                     *)
(***************************************************************************)
CONSTANTS MarshalTotal, Revert
VARIABLES script, pc, py, nd, c2s, s2c, doc, node, log, nid, desync

vars == <<script, pc, py, nd, c2s, s2c, doc, node, log, nid, desync>>

Frame(k, id, kind, pre, st) == [k |-> k, id |-> id, kind |-> kind, pre |-> pre, st |-> st]
Msg(t, id, kind) == [t |-> t, id |-> id, kind |-> kind]
Top(s) == s[Len(s)]
Pop(s) == SubSeq(s, 1, Len(s) - 1)
SetTop(s, f) == [s EXCEPT ![Len(s)] = f]

InitWith(S) ==
  /\ script \in S /\ pc = 1 /\ py = <<>> /\ nd = <<>> /\ c2s = <<>> /\ s2c = <<>>
  /\ doc = 0 /\ node = 0 /\ log = <<>> /\ nid = 1 /\ desync = FALSE

Quiescent == py = <<>> /\ nd = <<>> /\ c2s = <<>> /\ s2c = <<>>

\* Node issues the next call of the script (one top-level call at a time)
NodeIssue ==
  /\ Quiescent /\ pc <= Len(script)
  /\ nd' = <<Frame("wait", nid, script[pc], doc, "top")>>
  /\ c2s' = Append(c2s, Msg("CALL", nid, script[pc]))
  /\ pc' = pc + 1 /\ nid' = nid + 1
  /\ UNCHANGED <<script, py, s2c, doc, node, log, desync>>

\* Sandbox.run: marshal.load x 2 from the input pipe
PyRead ==
  /\ c2s # <<>>
  /\ IF py = <<>> THEN TRUE ELSE Top(py).k = "ext"                 \* the main loop, or break_on_response
  /\ LET m == Head(c2s) IN
       /\ c2s' = Tail(c2s)
       /\ IF m.t = "CALL" THEN py' = Append(py, Frame("serve", m.id, m.kind, doc, "start"))
          ELSE IF py = <<>> THEN py' = py                     \* `continue`: a stray reply is dropped
          ELSE \* break_on_response: call_external returns the data / raises Exception(data)
               py' = SetTop(Pop(py), [Pop(py)[Len(py) - 1] EXCEPT !.st = IF m.t = "DATA" THEN "resumed" ELSE "raised"])
  /\ UNCHANGED <<script, pc, nd, s2c, doc, node, log, nid, desync>>

\* the registered function starts
PyExec ==
  /\ py # <<>> /\ Top(py).k = "serve" /\ Top(py).st = "start"
  /\ LET f == Top(py) IN
       IF ExtAnswer(f.kind) # "none"
       THEN \* call_external: _send_to_js(CALL, args) happens INSIDE the user action, before it completes
            \/ /\ s2c' = Append(s2c, Msg("CALL", f.id, f.kind))
               /\ py' = Append(SetTop(py, [f EXCEPT !.st = "wait"]), Frame("ext", f.id, f.kind, doc, ""))
               /\ UNCHANGED doc
            \/ /\ CallHostile(f.kind) /\ ~MarshalTotal         \* marshal.dumps of the CALL raises
               /\ py' = SetTop(py, [f EXCEPT !.st = "raised"])
               /\ UNCHANGED <<s2c, doc>>
       ELSE /\ \/ /\ ArgsValid(f.kind)
                  /\ py' = SetTop(py, [f EXCEPT !.st = "ran"])
                  /\ doc' = IF Mutating(f.kind) THEN doc + 1 ELSE doc
               \/ /\ ~ArgsValid(f.kind) \/ MayReject(f.kind)
                  /\ py' = SetTop(py, [f EXCEPT !.st = "raised"])       \* the engine reverts a failed bundle (C04)
                  /\ UNCHANGED doc
            /\ UNCHANGED s2c
  /\ UNCHANGED <<script, pc, nd, c2s, node, log, nid, desync>>

\* call_external returned: the user action completes, the bundle is applied
PyResume ==
  /\ py # <<>> /\ Top(py).k = "serve" /\ Top(py).st = "resumed"
  /\ py' = SetTop(py, [Top(py) EXCEPT !.st = "ran"])
  /\ doc' = doc + 1
  /\ UNCHANGED <<script, pc, nd, c2s, s2c, node, log, nid, desync>>

\* _send_to_js(DATA, ret) - or the except branch
PyReply ==
  /\ py # <<>> /\ Top(py).k = "serve" /\ Top(py).st \in {"ran", "raised"}
  /\ LET f == Top(py) IN
       \/ /\ s2c' = Append(s2c, Msg(IF f.st = "ran" THEN "DATA" ELSE "EXC", f.id, f.kind))
          /\ UNCHANGED doc
       \/ /\ f.st = "ran" /\ ReplyHostile(f.kind) /\ ~MarshalTotal     \* marshal.dumps(ret) raises AFTER the apply
          /\ s2c' = Append(s2c, Msg("EXC", f.id, f.kind))              \* "%s %s" % (type(e).__name__, e) is a plain str
          /\ doc' = IF Revert THEN f.pre ELSE doc
  /\ py' = Pop(py)
  /\ UNCHANGED <<script, pc, nd, c2s, node, log, nid, desync>>

\* Node reads a message of Python
NodeRead ==
  /\ s2c # <<>>
  /\ LET m == Head(s2c) IN
       /\ s2c' = Tail(s2c)
       /\ IF m.t = "CALL"
          THEN /\ nd' = Append(nd, Frame("handle", m.id, m.kind, doc, "new"))
               /\ UNCHANGED <<node, log, desync>>
          ELSE IF nd = <<>> \/ Top(nd).k # "wait" \/ Top(nd).id # m.id
          THEN /\ desync' = TRUE /\ UNCHANGED <<nd, node, log>>
          ELSE /\ nd' = Pop(nd)
               /\ desync' = desync
               /\ IF Top(nd).st = "top"
                  THEN /\ log' = Append(log, [kind |-> m.kind, reply |-> m.t, changed |-> doc # Top(nd).pre])
                       /\ node' = IF m.t = "DATA" /\ Name(m.kind) = "apply_user_actions" THEN node + 1 ELSE node
                  ELSE /\ UNCHANGED <<node, log>>
  /\ UNCHANGED <<script, pc, py, c2s, doc, nid>>

\* while handling Python's CALL, Node may first call back in (a fetch), then answers
NodeNested ==
  /\ nd # <<>> /\ Top(nd).k = "handle" /\ Top(nd).st = "new" /\ Top(nd).kind = "apply_ext_nested"
  /\ nd' = Append(SetTop(nd, [Top(nd) EXCEPT !.st = "nested"]), Frame("wait", nid, "fetch_ok", doc, "inner"))
  /\ c2s' = Append(c2s, Msg("CALL", nid, "fetch_ok"))
  /\ nid' = nid + 1
  /\ UNCHANGED <<script, pc, py, s2c, doc, node, log, desync>>

NodeAnswer ==
  /\ nd # <<>> /\ Top(nd).k = "handle"
  /\ Top(nd).kind = "apply_ext_nested" => Top(nd).st = "nested"
  /\ c2s' = Append(c2s, Msg(ExtAnswer(Top(nd).kind), Top(nd).id, Top(nd).kind))
  /\ nd' = Pop(nd)
  /\ UNCHANGED <<script, pc, py, s2c, doc, node, log, nid, desync>>

Done == Quiescent /\ pc > Len(script) /\ UNCHANGED vars

Next == NodeIssue \/ PyRead \/ PyExec \/ PyResume \/ PyReply \/ NodeRead \/ NodeNested \/ NodeAnswer \/ Done

(***************************************************************************)
(* Invariants the statement ends on                                        *)
(***************************************************************************)
\* (1) a reply is never lost after the engine has applied the change
Atomic == \A i \in 1..Len(log) : log[i].reply = "EXC" => ~log[i].changed
\*     ... and Node, advancing only on DATA replies, is never behind the engine
Mirror == Quiescent => node = doc
\* (2) valid calls of the three functions get DATA
Delivered == \A i \in 1..Len(log) : Guaranteed(log[i].kind) => log[i].reply = "DATA"
\* (3) every reply answers the innermost outstanding call; nothing is left in the pipes; the loop is
\*     back in its top-level read and every scripted call was answered
InSync == ~desync /\ (Quiescent => Len(log) = pc - 1)
\* the machine (with MarshalTotal) satisfies the relation of part 1, and behaves as Expected
AsObserved(e) == [kind |-> e.kind, reply |-> e.reply, w0 |-> "a", w1 |-> IF e.changed THEN "b" ELSE "a",
                  hasw |-> (e.reply = "DATA" /\ Mutating(e.kind)), sync |-> TRUE]
SpecSane == \A i \in 1..Len(log) : Clauses(AsObserved(log[i])) = {}
=============================================================================
