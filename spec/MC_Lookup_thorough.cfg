SPECIFICATION Spec
CHECK_DEADLOCK FALSE
CONSTANTS Fams <- ThoroughFams
INVARIANT SpecSane
INVARIANT OrderSane
INVARIANT ModelSane
