---------------------------- MODULE MC_FetchQuery ----------------------------
(* Bounded design model of C41.  One state per input.  An input is                                 *)
(*   [tab, x, ids, t, q, f, p, e]                                                                   *)
(*   tab  table that is fetched: "T" (the user table) or a metadata table of the same document      *)
(*   x    extra columns of T: "none" | "formula" (F = $A) | "lookup" (F and L = lookupRecords)      *)
(*   ids  explicit row ids of T (<<>> = 1..n)        t  rows of T: <<code of A, code of B>>        *)
(*   q    query <<[c |-> column, v |-> <<codes>>]>>  f/p  formulas / private flags                 *)
(*   e    with an empty q: pass {} (TRUE) or None (FALSE)                                           *)
(* Families (Fams, a sequence) are fully enumerated sub-spaces, see QuickFams / ThoroughFams.         *)
(* SpecSane: the admissible-output relation accepts the reference solution, which is written in a   *)
(* different formulation (canonical keys, scan by candidate id) - on every input with a modelled    *)
(* table.  The input space and the value universe are written to OUT_FILE.                          *)
EXTENDS FetchQuery, TLC, Json, IOUtils, SequencesExt, FiniteSetsExt
CONSTANTS Fams

U9 == 0..8                      \* 0, 1, False, True, "", "a", None, [1], [1,2]
Mix == {1, 5, 7}                \* 1, "a", [1]

SeqsUpTo(S, n) == UNION {[1..m -> S] : m \in 0..n}

Fam(r, ca, cb, qa, na, qb, nb, fl) ==
  [r |-> r, ca |-> ca, cb |-> cb, qa |-> qa, na |-> na, qb |-> qb, nb |-> nb, fl |-> fl]

\* r: max rows; ca/cb: cell codes of A/B (cb = {}: B holds the distinct codes 0,1,2 by position);
\* qa/na: query codes and max number of values for A (na = -1: A is not queried); same for B;
\* fl: values of the formulas flag
QuickFams == <<
  Fam(1, U9,  {},  U9,  2, {},  -1, {TRUE}),        \* one queried column, whole universe
  Fam(2, U9,  {},  U9,  1, {},  -1, {TRUE}),
  Fam(1, U9,  {},  U9,  1, {},  -1, {FALSE}),       \* ... without formulas
  Fam(1, {5}, U9,  {}, -1, U9,   2, {TRUE}),        \* the same on the second column
  Fam(1, Mix, Mix, Mix, 2, Mix,  2, {TRUE}),        \* two queried columns: conjunction, set/list paths
  Fam(2, Mix, Mix, Mix, 1, Mix,  1, {TRUE}),
  Fam(1, U9,  U9,  U9,  1, U9,   1, {TRUE}),        \* two queried columns, whole universe, one row
  Fam(2, Mix, {},  {}, -1, {},  -1, BOOLEAN) >>     \* no query / empty query
ThoroughFams == <<
  Fam(3, U9,  {},  U9,  2, {},  -1, {TRUE}),
  Fam(2, U9,  {},  U9,  2, {},  -1, {FALSE}),
  Fam(2, {5}, U9,  {}, -1, U9,   2, BOOLEAN),
  Fam(2, Mix, Mix, Mix, 2, Mix,  2, {TRUE}),
  Fam(3, Mix, Mix, Mix, 1, Mix,  1, {TRUE}),
  Fam(1, U9,  U9,  U9,  2, U9,   1, {TRUE}),
  Fam(1, U9,  U9,  U9,  1, U9,   2, {TRUE}),
  Fam(3, Mix, {},  {}, -1, {},  -1, BOOLEAN) >>

TablesOf(fm) ==
  UNION { { [k \in 1..n |-> <<a[k], IF fm.cb = {} THEN k - 1 ELSE b[k]>>] :
              a \in [1..n -> fm.ca], b \in [1..n -> IF fm.cb = {} THEN {0} ELSE fm.cb] } :
          n \in 0..fm.r }

QueriesOf(fm) ==
  LET QA == IF fm.na < 0 THEN {<<>>} ELSE {<<[c |-> "A", v |-> s]>> : s \in SeqsUpTo(fm.qa, fm.na)}
      QB == IF fm.nb < 0 THEN {<<>>} ELSE {<<[c |-> "B", v |-> s]>> : s \in SeqsUpTo(fm.qb, fm.nb)}
  IN {qe \in {<<a \o b, e>> : a \in QA, b \in QB, e \in BOOLEAN} : qe[2] => qe[1] = <<>>}

InputsOf(fm) ==
  {[tab |-> "T", x |-> "none", ids |-> <<>>, t |-> t, q |-> qe[1], f |-> f, p |-> FALSE, e |-> qe[2]] :
     t \in TablesOf(fm), qe \in QueriesOf(fm), f \in fm.fl}

\* column kinds: a fixed table, every extra-column design, every flag combination, queries on data,
\* formula, id and metadata columns; explicit descending row ids
KT == << <<1, 0>>, <<5, 1>>, <<3, 2>> >>          \* A = 1, "a", True;  B = 0, 1, False
Q1(c, v) == <<[c |-> c, v |-> v]>>
KQ(tab, x) ==
  CASE tab = "T" ->
         {<<>>, Q1("A", <<1>>), Q1("id", <<19, 12>>)} \cup
         (IF x = "none" THEN {} ELSE {Q1("F", <<3>>), Q1("A", <<1>>) \o Q1("F", <<5, 9>>)})
    [] tab = "_grist_Tables_column" ->
         {<<>>, Q1("isFormula", <<1>>), Q1("isFormula", <<2>>), Q1("parentId", <<1>>), Q1("id", <<1, 19>>)}
    [] tab = "_grist_Tables" ->
         {<<>>, Q1("id", <<1>>), Q1("onDemand", <<0>>)}
Kinds ==
  {[tab |-> tab, x |-> x, ids |-> ids, t |-> KT, q |-> q, f |-> f, p |-> p, e |-> FALSE] :
     tab \in {"T", "_grist_Tables_column", "_grist_Tables"}, x \in {"none", "formula", "lookup"},
     ids \in {<<>>, <<5, 2, 3>>}, q \in UNION {KQ(tb, xx) : tb \in {"T", "_grist_Tables_column", "_grist_Tables"},
                                                          xx \in {"none", "formula", "lookup"}},
     f \in BOOLEAN, p \in BOOLEAN}
KindsValid == {k \in Kinds : k.q \in KQ(k.tab, k.x) /\ (k.tab # "T" => k.ids = <<>>)}

\* The families overlap (e.g. the empty table), and TLC's union of large sets of records is
\* quadratic: the input space is never built as one set.  Init is a disjunction over the families
\* (equal inputs are one state) and the JSON file is the concatenation of the families' inputs
\* (the harness drops the repeated ones).
RECURSIVE AllInputsFrom(_)
AllInputsFrom(k) == IF k > Len(Fams) THEN SetToSeq(KindsValid)
                    ELSE SetToSeq(InputsOf(Fams[k])) \o AllInputsFrom(k + 1)

\* ---------------------------------------------------------------------------------------------
\* Model of what the engine holds for table T (columns of type Any store the raw value)
IntCode(i) == IF i <= 1 THEN i ELSE 17 + i        \* 0..8
FloatCode(i) == 9 + i                             \* 0.0 .. 8.0
Col(id, h, fm, pv, v) == [id |-> id, h |-> h, fm |-> fm, pv |-> pv, v |-> v]
Stored(in) ==
  LET n == Len(in.t)
      ids == IF in.ids = <<>> THEN [k \in 1..n |-> k] ELSE in.ids
      a == [k \in 1..n |-> in.t[k][1]]
  IN [ids |-> ids,
      cols |-> << Col("id", FALSE, FALSE, FALSE, [k \in 1..n |-> IntCode(ids[k])]),
                  Col("manualSort", FALSE, FALSE, FALSE, [k \in 1..n |-> FloatCode(k)]),
                  Col("A", FALSE, FALSE, FALSE, a),
                  Col("B", FALSE, FALSE, FALSE, [k \in 1..n |-> in.t[k][2]]) >>
              \o (IF in.x = "none" THEN <<>> ELSE <<Col("F", FALSE, TRUE, FALSE, a)>>)
              \o (IF in.x = "lookup" THEN <<Col("L", FALSE, TRUE, FALSE, [k \in 1..n |-> Opaque + k])>> ELSE <<>>)
              \o <<Col("#lookup#", TRUE, TRUE, FALSE, [k \in 1..n |-> Opaque + 10 + k])>>]
DK(in) ==
  <<[id |-> "A", fm |-> FALSE], [id |-> "B", fm |-> FALSE]>>
  \o (IF in.x = "none" THEN <<>> ELSE <<[id |-> "F", fm |-> TRUE]>>)
  \o (IF in.x = "lookup" THEN <<[id |-> "L", fm |-> TRUE]>> ELSE <<>>)

\* PyEq coincides with structural identity of canonical keys on the whole universe (hence it is an
\* equivalence relation: reflexive, symmetric, transitive)
Codes == 0..(Len(Universe) - 1)
ASSUME \A a \in Codes : PyEq(Val(a), Val(a))
ASSUME \A a, b \in Codes : PyEq(Val(a), Val(b)) <=> PyEq(Val(b), Val(a))
ASSUME \A a, b \in Codes : PyEq(Val(a), Val(b)) <=> SameKey(KeyOf(Val(a)), KeyOf(Val(b)))
\* the facts the property text names
ASSUME PyEq(Val(1), Val(3)) /\ PyEq(Val(1), Val(10)) /\ PyEq(Val(0), Val(2)) /\ PyEq(Val(0), Val(9))
ASSUME ~PyEq(Val(4), Val(5)) /\ ~PyEq(Val(6), Val(0)) /\ ~PyEq(Val(6), Val(4)) /\ ~PyEq(Val(7), Val(1))
ASSUME PyEq(Val(7), Val(30)) /\ PyEq(Val(8), Val(31)) /\ ~PyEq(Val(8), Val(32)) /\ ~PyEq(Val(28), Val(1))

ASSUME "OUT_FILE" \in DOMAIN IOEnv
       => JsonSerialize(IOEnv.OUT_FILE, [U |-> Universe, inputs |-> AllInputsFrom(1)])

VARIABLE input
Init == \/ input \in KindsValid
        \/ \E k \in 1..Len(Fams) : input \in InputsOf(Fams[k])
Next == UNCHANGED input
SpecSane ==
  input.tab = "T" =>
    LET st == Stored(input)
    IN Ok(st, input.q, input.f, input.p, DK(input), Ref(st, input.q, input.f, input.p))
=============================================================================
