------------------------------ MODULE Predicate ------------------------------
(***************************************************************************)
(* C40 - predicate formula parse trees (sandbox/grist/predicate_formula.py) *)
(*                                                                         *)
(* A tree is a nested sequence <<NODE_TYPE, args...>> exactly as            *)
(* parse_predicate_formula documents it:                                    *)
(*   And|Or ...values            Add|Sub|Mult|Div|Mod left, right           *)
(*   Not operand                 Eq|NotEq|Lt|LtE|Gt|GtE|Is|IsNot|In|NotIn   *)
(*   List ...elements            Const value      Name name                 *)
(*   Attr node, attr_name        Comment node, comment                      *)
(*   Call func, ...args [, <<"keywords", <<name, node>>, ...>>]             *)
(*                                                                         *)
(* Values are tagged pairs <<tag, payload>> so that TLC never compares a    *)
(* string with a number:                                                    *)
(*   <<"int", n>>  <<"bool", b>>  <<"float", n>> (integral floats only)     *)
(*   <<"str", <<code points>>>>  <<"none", 0>>  <<"list", <<values>>>>      *)
(*   <<"obj", [attr |-> value]>>  <<"fn", <<name, self>>>>  <<"kw", name>>  *)
(*   <<"err", 0>>    evaluation raises (any exception class)                *)
(*   <<"undef", 0>>  the node semantics has no opinion (see below)          *)
(* plus opaque tags the recorder uses for what it cannot pass to TLC        *)
(* ("nonint", "bigint", "bigstr", "other").                                 *)
(*                                                                         *)
(* Eval(tree, env) is the node semantics: every node type means the Python  *)
(* operator it is named after (And/Or return an operand, comparisons of     *)
(* unlike types raise, ...).  Where Python's meaning is outside the little  *)
(* value domain (inexact division, "%"-formatting of strings, identity of   *)
(* non-singletons, attributes of builtin types, numbers beyond Bound) Eval  *)
(* yields "undef" and the property demands nothing for that environment.    *)
(***************************************************************************)
EXTENDS Naturals, Integers, Sequences, FiniteSets

Tag(v) == v[1]
Pay(v) == v[2]
VInt(n)   == <<"int", n>>
VBool(b)  == <<"bool", b>>
VFloat(n) == <<"float", n>>
VStr(s)   == <<"str", s>>
VNone     == <<"none", 0>>
VList(s)  == <<"list", s>>
VObj(r)   == <<"obj", r>>
VFn(n, s) == <<"fn", <<n, s>>>>
VKw(n)    == <<"kw", n>>
Err       == <<"err", 0>>
Undef     == <<"undef", 0>>

Bound  == 1000      \* |numbers| the recorder passes through; beyond: opaque / undef
MaxSeq == 64        \* longest string / list passed through

Stop(v) == Tag(v) \in {"err", "undef"}
IsNum(v) == Tag(v) \in {"int", "bool", "float"}
Num(v) == IF Tag(v) = "bool" THEN (IF Pay(v) THEN 1 ELSE 0) ELSE Pay(v)
IsSeqV(v) == Tag(v) \in {"str", "list"}
ConstTags == {"int", "bool", "float", "str", "none"}

\* values the operators compute with (no functions, keyword markers, opaque recorder tags)
RECURSIVE Clean(_)
Clean(v) ==
  CASE Tag(v) \in {"int", "bool", "float", "str", "none", "obj"} -> TRUE
    [] Tag(v) = "list" -> \A i \in 1..Len(Pay(v)) : Clean(Pay(v)[i])
    [] OTHER -> FALSE

NumV(tag, n) == IF n > Bound \/ n < -Bound THEN Undef ELSE <<tag, n>>
NumTag(a, b) == IF "float" \in {Tag(a), Tag(b)} THEN "float" ELSE "int"
SeqV(tag, s) == IF Len(s) > MaxSeq THEN Undef ELSE <<tag, s>>

\* truthiness (Python): 0, 0.0, False, None, "", [] are false
HasTruth(v) == Tag(v) \in {"int", "bool", "float", "str", "none", "list", "obj", "fn", "nonint", "bigint", "bigstr"}
Truthy(v) ==
  CASE Tag(v) \in {"int", "float"} -> Pay(v) # 0
    [] Tag(v) = "bool" -> Pay(v)
    [] Tag(v) = "none" -> FALSE
    [] Tag(v) \in {"str", "list"} -> Len(Pay(v)) # 0
    [] OTHER -> TRUE

\* ---- equality, ordering, membership ------------------------------------------------------------
RECURSIVE PyEq(_, _)
PyEq(a, b) ==
  IF IsNum(a) /\ IsNum(b) THEN Num(a) = Num(b)
  ELSE IF Tag(a) # Tag(b) THEN FALSE
  ELSE CASE Tag(a) = "str"  -> Pay(a) = Pay(b)
         [] Tag(a) = "none" -> TRUE
         [] Tag(a) = "list" -> /\ Len(Pay(a)) = Len(Pay(b))
                               /\ \A i \in 1..Len(Pay(a)) : PyEq(Pay(a)[i], Pay(b)[i])
         [] Tag(a) = "obj"  -> Pay(a) = Pay(b)      \* one object per distinct attribute record
         [] OTHER -> FALSE

NumCmp(op, x, y) ==
  CASE op = "Lt" -> x < y [] op = "LtE" -> x <= y [] op = "Gt" -> x > y [] op = "GtE" -> x >= y

MinOf(S) == CHOOSE x \in S : \A y \in S : x <= y
Smaller(a, b) == IF a <= b THEN a ELSE b

\* Python: numbers by value, strings by code point, lists lexicographically (the first pair of
\* unequal items decides, else the lengths); everything else raises TypeError
RECURSIVE Cmp(_, _, _)
Cmp(op, a, b) ==
  LET seqcmp(sa, sb) ==
        LET D == {i \in 1..Smaller(Len(sa), Len(sb)) : ~PyEq(sa[i], sb[i])}
        IN IF D = {} THEN VBool(NumCmp(op, Len(sa), Len(sb)))
           ELSE Cmp(op, sa[MinOf(D)], sb[MinOf(D)])
  IN IF IsNum(a) /\ IsNum(b) THEN VBool(NumCmp(op, Num(a), Num(b)))
     ELSE IF Tag(a) = "str" /\ Tag(b) = "str"
       THEN seqcmp([i \in 1..Len(Pay(a)) |-> VInt(Pay(a)[i])], [i \in 1..Len(Pay(b)) |-> VInt(Pay(b)[i])])
     ELSE IF Tag(a) = "list" /\ Tag(b) = "list" THEN seqcmp(Pay(a), Pay(b))
     ELSE Err

IsSubstr(a, b) == \E i \in 0..(Len(b) - Len(a)) : \A j \in 1..Len(a) : b[i + j] = a[j]

PyIn(a, b) ==
  CASE Tag(b) = "list" -> VBool(\E i \in 1..Len(Pay(b)) : PyEq(a, Pay(b)[i]))
    [] Tag(b) = "str"  -> IF Tag(a) = "str" THEN VBool(IsSubstr(Pay(a), Pay(b))) ELSE Err
    [] OTHER -> Err

NegB(v) == IF Stop(v) THEN v ELSE VBool(~Pay(v))

\* `is`: only None / True / False have an identity the semantics speaks about
PyIs(a, b) ==
  IF Tag(a) \in {"none", "bool"} \/ Tag(b) \in {"none", "bool"} THEN VBool(a = b) ELSE Undef

\* ---- arithmetic ---------------------------------------------------------------------------------
Repeat(s, n) == [i \in 1..(Len(s) * n) |-> s[((i - 1) % Len(s)) + 1]]
PyMod(a, b) == IF b > 0 THEN a % b ELSE -((-a) % (-b))
Abs(n) == IF n < 0 THEN -n ELSE n

Arith(op, a, b) ==
  IF IsNum(a) /\ IsNum(b) THEN
    LET x == Num(a)  y == Num(b)  t == NumTag(a, b) IN
    CASE op = "Add"  -> NumV(t, x + y)
      [] op = "Sub"  -> NumV(t, x - y)
      [] op = "Mult" -> NumV(t, x * y)
      [] op = "Div"  -> IF y = 0 THEN Err
                        ELSE IF Abs(x) % Abs(y) # 0 THEN Undef       \* inexact: no floats in TLC
                        ELSE NumV("float", IF (x < 0) = (y < 0) THEN Abs(x) \div Abs(y)
                                           ELSE -(Abs(x) \div Abs(y)))
      [] op = "Mod"  -> IF y = 0 THEN Err ELSE NumV(t, PyMod(x, y))
  ELSE IF op = "Add" /\ IsSeqV(a) /\ Tag(a) = Tag(b) THEN SeqV(Tag(a), Pay(a) \o Pay(b))
  ELSE IF op = "Mult" /\ IsSeqV(a) /\ Tag(b) \in {"int", "bool"} THEN
    (IF Num(b) <= 0 \/ Len(Pay(a)) = 0 THEN <<Tag(a), <<>>>>
     ELSE IF Len(Pay(a)) * Num(b) > MaxSeq THEN Undef ELSE <<Tag(a), Repeat(Pay(a), Num(b))>>)
  ELSE IF op = "Mult" /\ IsSeqV(b) /\ Tag(a) \in {"int", "bool"} THEN
    (IF Num(a) <= 0 \/ Len(Pay(b)) = 0 THEN <<Tag(b), <<>>>>
     ELSE IF Len(Pay(b)) * Num(a) > MaxSeq THEN Undef ELSE <<Tag(b), Repeat(Pay(b), Num(a))>>)
  ELSE IF op = "Mod" /\ Tag(a) = "str" THEN Undef                    \* printf-style formatting
  ELSE Err

ArithOps == {"Add", "Sub", "Mult", "Div", "Mod"}
OrderOps == {"Lt", "LtE", "Gt", "GtE"}
CmpOps   == {"Eq", "NotEq", "Is", "IsNot", "In", "NotIn"} \cup OrderOps
BinOps   == ArithOps \cup CmpOps

Apply(op, a, b) ==
  IF ~Clean(a) \/ ~Clean(b) THEN Undef
  ELSE CASE op \in ArithOps -> Arith(op, a, b)
         [] op \in OrderOps -> Cmp(op, a, b)
         [] op = "Eq"    -> VBool(PyEq(a, b))
         [] op = "NotEq" -> VBool(~PyEq(a, b))
         [] op = "Is"    -> PyIs(a, b)
         [] op = "IsNot" -> NegB(PyIs(a, b))
         [] op = "In"    -> PyIn(a, b)
         [] op = "NotIn" -> NegB(PyIn(a, b))

\* ---- attributes and calls -----------------------------------------------------------------------
\* names that no builtin type has as an attribute (so Python raises AttributeError)
PlainAttrs == {"x", "y", "z", "a", "b", "p", "q"}
StrMethods == {"upper", "lower"}

AttrOf(v, name) ==
  CASE Tag(v) = "obj" -> IF name \in DOMAIN Pay(v) THEN Pay(v)[name] ELSE Err
    [] Tag(v) = "str" -> IF name \in StrMethods THEN VFn(name, v)
                         ELSE IF name \in PlainAttrs THEN Err ELSE Undef
    [] Tag(v) \in {"int", "bool", "float", "none", "list", "fn"} ->
                         IF name \in PlainAttrs \cup StrMethods THEN Err ELSE Undef
    [] OTHER -> Undef

Recase(s, lo, hi, d) == [i \in 1..Len(s) |-> IF s[i] >= lo /\ s[i] <= hi THEN s[i] + d ELSE s[i]]

\* env functions: "pack" returns its positional arguments followed by <<kw name, value>> pairs;
\* str.upper / str.lower take no arguments
ApplyFn(f, pos, kws) ==
  IF Tag(f) # "fn" THEN (IF Clean(f) THEN Err ELSE Undef)
  ELSE LET name == Pay(f)[1]  self == Pay(f)[2] IN
    CASE name = "pack" -> SeqV("list", pos \o kws)
      [] name \in StrMethods ->
           IF Len(pos) # 0 \/ Len(kws) # 0 THEN Err
           ELSE IF \E i \in 1..Len(Pay(self)) : Pay(self)[i] > 127 THEN Undef
           ELSE IF name = "upper" THEN VStr(Recase(Pay(self), 97, 122, -32))
           ELSE VStr(Recase(Pay(self), 65, 90, 32))
      [] OTHER -> Undef

\* ---- the node semantics -------------------------------------------------------------------------
RECURSIVE Eval(_, _), EvalSeq(_, _, _, _), EvalKw(_, _, _, _), BoolFrom(_, _, _, _)

\* left-to-right evaluation of t[i..]; the first raise / undef wins
EvalSeq(t, i, env, acc) ==
  IF i > Len(t) THEN <<"vals", acc>>
  ELSE LET v == Eval(t[i], env) IN IF Stop(v) THEN v ELSE EvalSeq(t, i + 1, env, Append(acc, v))

EvalKw(kw, i, env, acc) ==
  IF i > Len(kw) THEN <<"vals", acc>>
  ELSE IF kw[i][1] = "**" THEN Undef
  ELSE LET v == Eval(kw[i][2], env)
       IN IF Stop(v) THEN v ELSE EvalKw(kw, i + 1, env, Append(acc, VList(<<VKw(kw[i][1]), v>>)))

\* And / Or return the deciding operand
BoolFrom(k, t, i, env) ==
  LET v == Eval(t[i], env) IN
  IF Stop(v) THEN v
  ELSE IF ~HasTruth(v) THEN Undef
  ELSE IF i = Len(t) THEN v
  ELSE IF (k = "And") = Truthy(v) THEN BoolFrom(k, t, i + 1, env) ELSE v

Eval(t, env) ==
  LET k == t[1] IN
  CASE k = "Const" -> IF Tag(t[2]) \in ConstTags THEN t[2] ELSE Undef
    [] k = "Name"  -> IF t[2] \in DOMAIN env THEN env[t[2]] ELSE Err
    [] k = "Attr"  -> LET v == Eval(t[2], env) IN IF Stop(v) THEN v ELSE AttrOf(v, t[3])
    [] k = "Comment" -> Eval(t[2], env)
    [] k = "Not"   -> LET v == Eval(t[2], env)
                      IN IF Stop(v) THEN v ELSE IF ~HasTruth(v) THEN Undef ELSE VBool(~Truthy(v))
    [] k \in {"And", "Or"} -> BoolFrom(k, t, 2, env)
    [] k = "List"  -> LET r == EvalSeq(t, 2, env, <<>>) IN IF Stop(r) THEN r ELSE SeqV("list", r[2])
    [] k \in BinOps -> LET a == Eval(t[2], env) IN
                       IF Stop(a) THEN a
                       ELSE LET b == Eval(t[3], env) IN IF Stop(b) THEN b ELSE Apply(k, a, b)
    [] k = "Call"  ->
         LET f == Eval(t[2], env) IN
         IF Stop(f) THEN f ELSE
         LET hasKw == Len(t) >= 3 /\ t[Len(t)][1] = "keywords"
             lastPos == IF hasKw THEN Len(t) - 1 ELSE Len(t)
             pos == EvalSeq(SubSeq(t, 1, lastPos), 3, env, <<>>)
         IN IF Stop(pos) THEN pos ELSE
            LET kws == IF hasKw THEN EvalKw(t[Len(t)], 2, env, <<>>) ELSE <<"vals", <<>>>>
            IN IF Stop(kws) THEN kws ELSE ApplyFn(f, pos[2], kws[2])
    [] OTHER -> Undef

\* ---- the documented shape of a tree -------------------------------------------------------------
JsonConstTags == ConstTags \cup {"nonint", "bigint", "bigstr"}     \* numbers, strings, booleans, None

RECURSIVE WF(_)
WF(t) ==
  LET k == t[1]  n == Len(t) - 1  all(S) == \A i \in S : WF(t[i]) IN
  CASE k \in {"And", "Or"} -> n >= 2 /\ all(2..Len(t))
    [] k \in BinOps  -> n = 2 /\ all(2..3)
    [] k = "Not"     -> n = 1 /\ all({2})
    [] k = "List"    -> all(2..Len(t))
    [] k = "Const"   -> n = 1 /\ Tag(t[2]) \in JsonConstTags
    [] k = "Name"    -> n = 1
    [] k = "Attr"    -> n = 2 /\ all({2})
    [] k = "Comment" -> n = 2 /\ all({2})
    [] k = "Call"    -> /\ n >= 1
                        /\ \A i \in 2..Len(t) :
                             IF t[i][1] = "keywords"
                             THEN /\ i = Len(t) /\ i > 2
                                  /\ \A j \in 2..Len(t[i]) : t[i][j][1] # "**" /\ WF(t[i][j][2])
                             ELSE WF(t[i])
    [] OTHER -> FALSE

\* ---- which texts are in the supported subset ----------------------------------------------------
\* `kinds` = the class names of the nodes of Python's own ast of the text, plus the facts
\* "Constant:<type>", "Compare:chained" (more than one operator), "keyword:**".
SemKinds ==
  {"Expression", "Load", "BoolOp", "And", "Or", "UnaryOp", "Not", "BinOp", "Add", "Sub", "Mult", "Div",
   "Mod", "Compare", "Eq", "NotEq", "Lt", "LtE", "Gt", "GtE", "Is", "IsNot", "In", "NotIn", "Name",
   "Attribute", "Constant", "Constant:int", "Constant:float", "Constant:str", "Constant:bool",
   "Constant:NoneType", "List", "Call", "keyword"}
\* the converter documents "We don't distinguish tuples and lists": a tuple display is translated
\* (to List) but Python itself does distinguish them, so no semantic claim is judged for such texts
TranslatedKinds == SemKinds \cup {"Tuple"}

InSubset(inp) == inp.pyok /\ \A i \in 1..Len(inp.kinds) : inp.kinds[i] \in TranslatedKinds
SemJudged(inp) == \A i \in 1..Len(inp.kinds) : inp.kinds[i] \in SemKinds

NoTree == <<"NoTree">>
NoExpr == <<"NoExpr">>

\* A case: inp = [expr, kinds, pyok, envs, ...], out = [tree, json, exc, shape], py = results per env.
\* StdEnvs is used when inp.envs is empty.
SemOk(tree, envs, py) ==
  /\ Len(py) = Len(envs)
  /\ \A k \in 1..Len(envs) : LET s == Eval(tree, envs[k]) IN Tag(s) = "undef" \/ s = py[k]

Clauses(inp, out, py, stdenvs) ==
  IF ~InSubset(inp) THEN (IF out.exc = "SyntaxError" THEN {} ELSE {"C40.unsupported"})
  ELSE IF out.exc # "" THEN {"C40.parse"}
  ELSE (IF out.json THEN {} ELSE {"C40.json"}) \cup
       (IF out.shape /\ WF(out.tree) THEN
          (IF ~SemJudged(inp) \/ SemOk(out.tree, IF Len(inp.envs) = 0 THEN stdenvs ELSE inp.envs, py)
           THEN {} ELSE {"C40.sem"})
        ELSE {"C40.nodes"})

Ok(inp, out, py, stdenvs) == Clauses(inp, out, py, stdenvs) = {}

\* ---- the standard environments -------------------------------------------------------------------
\* rec.x ranges over a small domain; rec.y, user.a and the function f are fixed
StrA == VStr(<<97>>)
XDom == <<VInt(0), VInt(1), VBool(TRUE), StrA, VNone, VList(<<VInt(1)>>)>>
EnvFor(xv) == [rec  |-> VObj([x |-> xv, y |-> VInt(2)]),
               user |-> VObj([a |-> VStr(<<65, 98>>)]),
               f    |-> VFn("pack", VNone)]
StdEnvs == <<EnvFor(XDom[1]), EnvFor(XDom[2]), EnvFor(XDom[3]), EnvFor(XDom[4]), EnvFor(XDom[5]), EnvFor(XDom[6])>>

\* ---- abstract expressions (design model) --------------------------------------------------------
\* <<"Unsup", kind, a, b>> stands for a construct outside the subset built from a and b
ConstKind(v) ==
  CASE Tag(v) = "int" -> "Constant:int" [] Tag(v) = "bool" -> "Constant:bool"
    [] Tag(v) = "str" -> "Constant:str" [] Tag(v) = "none" -> "Constant:NoneType"
    [] Tag(v) \in {"float", "nonint"} -> "Constant:float" [] Tag(v) = "bigint" -> "Constant:int"
    [] Tag(v) = "bigstr" -> "Constant:str" [] OTHER -> "Constant:other"

RECURSIVE KindsOf(_)
KindsOf(t) ==
  LET k == t[1]  sub(S) == UNION {KindsOf(t[i]) : i \in S} IN
  CASE k \in {"And", "Or"} -> {"BoolOp", k} \cup sub(2..Len(t))
    [] k = "Not"      -> {"UnaryOp", "Not"} \cup sub({2})
    [] k \in ArithOps -> {"BinOp", k} \cup sub(2..3)
    [] k \in CmpOps   -> {"Compare", k} \cup sub(2..3)
    [] k = "List"     -> {"List"} \cup sub(2..Len(t))
    [] k = "Tuple"    -> {"Tuple"} \cup sub(2..Len(t))
    [] k = "Const"    -> {"Constant", ConstKind(t[2])}
    [] k = "Name"     -> {"Name"}
    [] k = "Attr"     -> {"Attribute"} \cup sub({2})
    [] k = "Comment"  -> sub({2})
    [] k = "Call"     -> {"Call"} \cup sub(2..Len(t))
    [] k = "keywords" -> {"keyword"} \cup UNION {KindsOf(t[i][2]) : i \in 2..Len(t)}
    [] k = "Unsup"    -> {t[2]} \cup sub(3..4)
    [] OTHER -> {"?"}

RECURSIVE HasUnsup(_)
HasUnsup(t) ==
  LET k == t[1] IN
  CASE k = "Unsup" -> TRUE
    [] k \in {"Const", "Name"} -> FALSE
    [] k \in {"Attr", "Comment"} -> HasUnsup(t[2])
    [] k = "keywords" -> \E i \in 2..Len(t) : HasUnsup(t[i][2])
    [] OTHER -> \E i \in 2..Len(t) : HasUnsup(t[i])

\* the out-of-subset kinds an abstract expression was built from
RECURSIVE UnsupIn(_)
UnsupIn(t) ==
  LET k == t[1] IN
  CASE k = "Unsup" -> {t[2]} \cup UnsupIn(t[3]) \cup UnsupIn(t[4])
    [] k \in {"Const", "Name"} -> {}
    [] k \in {"Attr", "Comment"} -> UnsupIn(t[2])
    [] k = "keywords" -> UNION {UnsupIn(t[i][2]) : i \in 2..Len(t)}
    [] OTHER -> UNION {UnsupIn(t[i]) : i \in 2..Len(t)}

=============================================================================
