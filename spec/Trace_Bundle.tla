----------------------------- MODULE Trace_Bundle -----------------------------
(***************************************************************************)
(* Conformance judge for Bundle.tla (S->C): every (document, bundle) case  *)
(* TLC enumerated was run on the real engine - once without a fault and    *)
(* once per doc-action boundary with an injected fault.                    *)
(* Case: [d, uas, runs |-> <<[kind, k, fired, ok, doc, quiet]>>]           *)
(*   kind = "none" | "before" | "after" | "rebuild"; doc = document after  *)
(*   the call; quiet = the following Calculate emitted no action.          *)
(***************************************************************************)
EXTENDS BundleSem, Json, IOUtils
File == JsonDeserialize(IOEnv.TRACE_FILE)
Cases == File.cases
RowSeq == File.rows
N == Len(Cases)
VARIABLES i, bad
Dec(e) == [a |-> [r \in Rows |-> e.a[CHOOSE k \in 1..Len(RowSeq) : RowSeq[k] = r]], hasF |-> e.hasF,
           f |-> [r \in Rows |-> e.f[CHOOSE k \in 1..Len(RowSeq) : RowSeq[k] = r]]]
JudgeRun(d, uas, run) ==
  LET c == Call(d, uas, 0, TRUE)
      after == Dec(run.doc)
  IN IF run.kind = "none"
     THEN (IF run.ok = c.ok THEN {} ELSE {"C04.outcome"})
          \cup (IF run.ok /\ c.ok /\ after # c.doc THEN {"C02.meaning"} ELSE {})
          \cup (IF ~run.ok /\ after # d THEN {"C04.unchanged"} ELSE {})
          \cup (IF run.quiet THEN {} ELSE {"C04.quiet"})
     ELSE IF run.fired
          THEN (IF run.ok THEN {"C04.swallowed"} ELSE {})
               \cup (IF after # d THEN {"C04.unchanged"} ELSE {})
               \cup (IF run.quiet THEN {} ELSE {"C04.quiet"})
          ELSE {}
Judge(cs) == UNION {JudgeRun(Dec(cs.d), cs.uas, cs.runs[k]) : k \in 1..Len(cs.runs)}
Init == i = 0 /\ bad = <<>> /\ (N > 0 \/ JsonSerialize(IOEnv.OUT_FILE, <<>>))
Next ==
  /\ i < N
  /\ i' = i + 1
  /\ bad' = LET j == Judge(Cases[i + 1])
            IN IF j = {} THEN bad ELSE Append(bad, [i |-> i + 1, c |-> j])
  /\ (i' < N \/ JsonSerialize(IOEnv.OUT_FILE, bad'))
Spec == Init /\ [][Next]_<<i, bad>>
View == i
=============================================================================
