------------------------------- MODULE Upsert -------------------------------
(***************************************************************************)
(* C28 - upserts follow their specification                                *)
(* (sandbox/grist/useractions.py BulkAddOrUpdateRecord / AddOrUpdateRecord;*)
(*  the docstring of BulkAddOrUpdateRecord is the documented reference).   *)
(*                                                                         *)
(* One table with the columns k1 (Int), k2 (Text), v (Int).                *)
(*                                                                         *)
(* A cell value is a record [t, n, s]:                                     *)
(*   I(n)   the integer n                                                  *)
(*   NS(n)  the text that is the canonical decimal numeral of n ("1")      *)
(*   S(x)   any other text x (never a numeral, never blank in an Int       *)
(*          column: the harness only uses texts whose conversion is the    *)
(*          one written in Conv below)                                     *)
(* A row is [id, k1, k2, v]; a table is a sequence of rows with distinct   *)
(* ids.                                                                    *)
(*                                                                         *)
(* An input is                                                             *)
(*   kind     "bulk" (BulkAddOrUpdateRecord) or "single" (AddOrUpdate-     *)
(*            Record; every value list has exactly one element)            *)
(*   rows     the table before                                             *)
(*   require  <<[col, vals], ...>>   column id -> list of cell values      *)
(*   colvals  <<[col, vals], ...>>   (distinct columns in each)            *)
(*   opts     [on_many, update, add, allow]: on_many is "-" (not given),   *)
(*            "first", "all", "none" or anything else (invalid); the       *)
(*            switches are "-" (not given), "T" or "F"                     *)
(*                                                                         *)
(* An observation of one execution is                                      *)
(*   rej      the user action raised                                       *)
(*   same     the whole document (every table, metadata) is as before      *)
(*   retok    the returned value has the documented shape                  *)
(*   recs     per input row the returned record ids (recordIds)            *)
(*   adds     addRecordIds, upds  updateRecordIds   (bulk)                 *)
(*   action   "ADD" / "UPDATE" / "NONE"             (single)               *)
(*   after    the table afterwards                                         *)
(*                                                                         *)
(* Clauses(in, o) is the admissible-outcome RELATION.  What the reference  *)
(* fixes: input rows are processed in order (a record reached by several   *)
(* input rows ends with the values of the last one); for each input row    *)
(* the records                                                             *)
(* whose cells equal the `require` values - converted to the column types  *)
(* as lookupRecords does - are looked up; with a match and update allowed, *)
(* the first (lowest id) / all / none of several matches (a single match   *)
(* is always taken) receive the converted col_values; without a match and  *)
(* add allowed, a record with {**require, **col_values} is added; the      *)
(* returned ids say which.  What it leaves open, and the relation too:     *)
(*   - whether the lookup of a later input row sees the effects of earlier *)
(*     input rows of the same request (table at the start, or as it is     *)
(*     now: any choice per input row - Modes);                             *)
(*   - which fresh ids new records get;                                    *)
(*   - whether `require` rows that are different as given but equal after  *)
(*     conversion (1 and "1" for an Int column) count as duplicates        *)
(*     (MayReject);                                                        *)
(*   - AddOrUpdateRecord with neither require nor col_values, arguments    *)
(*     valid: "nothing to do" (NONE) as well as the literal reading are    *)
(*     admitted.                                                           *)
(***************************************************************************)
EXTENDS Integers, Sequences, FiniteSets

I(n)  == [t |-> "i",  n |-> n, s |-> ""]
NS(n) == [t |-> "ns", n |-> n, s |-> ""]
S(x)  == [t |-> "s",  n |-> 0, s |-> x]

ColType(c) == IF c = "k2" THEN "Text" ELSE "Int"
Default(c) == IF ColType(c) = "Int" THEN I(0) ELSE S("")

\* what a column of that type stores / looks up for a given value
Conv(c, val) ==
  IF ColType(c) = "Int" THEN (IF val.t = "ns" THEN I(val.n) ELSE val)     \* "1" -> 1; other text stays
  ELSE (IF val.t = "i" THEN NS(val.n) ELSE val)                           \* 1 -> "1"

Range(s) == {s[i] : i \in 1..Len(s)}
SetMax(A) == IF A = {} THEN 0 ELSE CHOOSE m \in A : \A x \in A : x <= m
RECURSIVE SortSet(_)
SortSet(A) == IF A = {} THEN <<>>
              ELSE LET m == CHOOSE x \in A : \A y \in A : x <= y IN <<m>> \o SortSet(A \ {m})
Ids(tab) == {tab[k].id : k \in 1..Len(tab)}

(***************************************************************************)
(* Arguments                                                               *)
(***************************************************************************)
Opt(x, dflt) == IF x = "-" THEN dflt ELSE x = "T"
OnMany(in)   == IF in.opts.on_many = "-" THEN "first" ELSE in.opts.on_many
MayUpdate(in) == Opt(in.opts.update, TRUE)
MayAdd(in)    == Opt(in.opts.add, TRUE)
AllowEmpty(in) == Opt(in.opts.allow, FALSE)

Lists(in) == [j \in 1..Len(in.require) |-> in.require[j].vals] \o
             [j \in 1..Len(in.colvals) |-> in.colvals[j].vals]
Lens(in)  == {Len(Lists(in)[j]) : j \in 1..Len(Lists(in))}
\* number of input rows
NRows(in) == IF in.kind = "single" THEN 1
             ELSE IF Lens(in) = {} THEN 0 ELSE CHOOSE n \in Lens(in) : TRUE

ReqAt(in, i) == [j \in 1..Len(in.require) |-> [col |-> in.require[j].col, val |-> in.require[j].vals[i]]]
ValAt(in, i) == [j \in 1..Len(in.colvals) |-> [col |-> in.colvals[j].col, val |-> in.colvals[j].vals[i]]]
ConvRow(r)   == [j \in 1..Len(r) |-> [col |-> r[j].col, val |-> Conv(r[j].col, r[j].val)]]

BadOnMany(in)   == OnMany(in) \notin {"first", "all", "none"}
EmptyRequire(in) == in.require = <<>> /\ ~AllowEmpty(in)
BadLengths(in)  == Cardinality(Lens(in)) > 1
\* the same `require` values given for two input rows
DupRequire(in)  == ~BadLengths(in) /\ in.require # <<>> /\
                   \E i, j \in 1..NRows(in) : i < j /\ ReqAt(in, i) = ReqAt(in, j)
ConvDupRequire(in) == ~BadLengths(in) /\ in.require # <<>> /\
                   \E i, j \in 1..NRows(in) : i < j /\ ConvRow(ReqAt(in, i)) = ConvRow(ReqAt(in, j))

MustReject(in) == BadOnMany(in) \/ EmptyRequire(in) \/ BadLengths(in) \/ DupRequire(in)
MayReject(in)  == ConvDupRequire(in)

(***************************************************************************)
(* One input row                                                           *)
(***************************************************************************)
RowMatches(r, req) == \A j \in 1..Len(req) : r[req[j].col] = Conv(req[j].col, req[j].val)
\* lookupRecords order: by row id
MatchIds(tab, req) == SortSet({tab[k].id : k \in {k \in 1..Len(tab) : RowMatches(tab[k], req)}})

Select(ids, om) == IF Len(ids) <= 1 THEN ids
                   ELSE IF om = "first" THEN <<ids[1]>>
                   ELSE IF om = "all" THEN ids ELSE <<>>

RECURSIVE SetCells(_, _, _)
SetCells(r, vals, j) ==
  IF j > Len(vals) THEN r
  ELSE SetCells([r EXCEPT ![vals[j].col] = Conv(vals[j].col, vals[j].val)], vals, j + 1)

\* {**require, **col_values}
NewRow(id, req, vals) ==
  SetCells(SetCells([id |-> id, k1 |-> Default("k1"), k2 |-> Default("k2"), v |-> Default("v")],
                    req, 1), vals, 1)

NAdds(st) == Cardinality({i \in 1..Len(st.act) : st.act[i] = "A"})

\* st = [tab, rec, act]; mode = where the records are looked up ("start": the table before the
\* request, "now": the table as left by the earlier input rows; "skip": nothing to do);
\* nid[<<i, a>>] = the id of a record added for input row i after `a` earlier additions
Step(in, st, i, mode, nid) ==
  LET req  == ReqAt(in, i)
      vals == ValAt(in, i)
      ids  == MatchIds(IF mode = "start" THEN in.rows ELSE st.tab, req)
      none == [tab |-> st.tab, rec |-> Append(st.rec, <<>>), act |-> Append(st.act, "N")]
  IN IF mode = "skip" THEN none
     ELSE IF ids = <<>>
     THEN IF MayAdd(in)
          THEN LET id == nid[<<i, NAdds(st)>>]
               IN [tab |-> Append(st.tab, NewRow(id, req, vals)),
                   rec |-> Append(st.rec, <<id>>), act |-> Append(st.act, "A")]
          ELSE none
     ELSE IF MayUpdate(in)
          THEN LET sel == Select(ids, OnMany(in))
               IN [tab |-> [k \in 1..Len(st.tab) |->
                              IF st.tab[k].id \in Range(sel) THEN SetCells(st.tab[k], vals, 1)
                              ELSE st.tab[k]],
                   rec |-> Append(st.rec, sel),
                   act |-> Append(st.act, IF sel = <<>> THEN "N" ELSE "U")]
          ELSE none

RECURSIVE RunFrom(_, _, _, _, _)
RunFrom(in, st, i, modes, nid) ==
  IF i > NRows(in) THEN st
  ELSE RunFrom(in, Step(in, st, i, modes[i], nid), i + 1, modes, nid)

Run(in, modes, nid) == RunFrom(in, [tab |-> in.rows, rec |-> <<>>, act |-> <<>>], 1, modes, nid)

\* AddOrUpdateRecord with nothing in require and nothing in col_values may also do nothing
NothingGiven(in) == in.kind = "single" /\ in.require = <<>> /\ in.colvals = <<>>
\* (for the first input row "start" and "now" are the same table)
Modes(in) == {m \in [1..NRows(in) -> IF NothingGiven(in) THEN {"start", "skip"} ELSE {"start", "now"}] :
                NRows(in) = 0 \/ m[1] # "now"}

(***************************************************************************)
(* The returned value that goes with a run                                 *)
(***************************************************************************)
RECURSIVE Pick(_, _, _, _)
Pick(st, what, i, flat) ==      \* the rec entries of the input rows whose act is `what`
  IF i > Len(st.act) THEN <<>>
  ELSE (IF st.act[i] = what THEN (IF flat THEN st.rec[i] ELSE <<st.rec[i]>>) ELSE <<>>)
       \o Pick(st, what, i + 1, flat)

RetOf(in, st) ==
  IF in.kind = "single"
  THEN [recs |-> st.rec, adds |-> <<>>, upds |-> <<>>,
        action |-> IF st.act[1] = "A" THEN "ADD" ELSE IF st.act[1] = "U" THEN "UPDATE" ELSE "NONE"]
  ELSE [recs |-> st.rec, adds |-> Pick(st, "A", 1, TRUE), upds |-> Pick(st, "U", 1, FALSE), action |-> ""]

ObsRet(o) == [recs |-> o.recs, adds |-> o.adds, upds |-> o.upds, action |-> o.action]

(***************************************************************************)
(* The relation                                                            *)
(***************************************************************************)
Mark(cond, name) == IF cond THEN {} ELSE {name}

SameTable(a, b) == Len(a) = Len(b) /\ Range(a) = Range(b)

Pairs(in) == (1..NRows(in)) \X (0..NRows(in))
\* ids of new records as the returned value names them ...
NidRet(in, o) == [p \in Pairs(in) |->
                    IF p[1] <= Len(o.recs) /\ Len(o.recs[p[1]]) = 1 THEN o.recs[p[1]][1] ELSE 0 - p[1]]
\* ... and as the table shows them (only used to tell a wrong table from a wrong returned value)
NidTab(in, o) == LET new == SortSet(Ids(o.after) \ Ids(in.rows))
                 IN [p \in Pairs(in) |-> IF p[2] + 1 <= Len(new) THEN new[p[2] + 1] ELSE 0 - p[1]]

Served(in, o) ==
  LET \* the admissible runs, with the new ids as returned / as seen in the table (each evaluated once)
      runsR == {Run(in, m, NidRet(in, o)) : m \in Modes(in)}
      runsT == {Run(in, m, NidTab(in, o)) : m \in Modes(in)}
      TabOk(st) == SameTable(o.after, st.tab)
      RetOk(st) == o.retok /\ ObsRet(o) = RetOf(in, st)
      full   == \E st \in runsR : TabOk(st) /\ RetOk(st)
      tabAny == (\E st \in runsR : TabOk(st)) \/ (\E st \in runsT : TabOk(st))
      retAny == \E st \in runsR : RetOk(st)
  IN IF full THEN {}
     ELSE IF tabAny THEN {"C28.ret"}
     ELSE {"C28.result"} \cup Mark(retAny, "C28.ret")

Clauses(in, o) ==
  IF o.rej
  THEN Mark(o.same /\ SameTable(o.after, in.rows), "C28.reject") \cup
       Mark(MustReject(in) \/ MayReject(in), "C28.raised")
  ELSE IF MustReject(in) THEN {"C28.reject"}
  ELSE Served(in, o)

Ok(in, o) == Clauses(in, o) = {}

(***************************************************************************)
(* Reference outcomes (one per lookup discipline); both are admissible     *)
(***************************************************************************)
RefObs(in, mode) ==
  IF MustReject(in)
  THEN [rej |-> TRUE, same |-> TRUE, retok |-> FALSE, recs |-> <<>>, adds |-> <<>>, upds |-> <<>>,
        action |-> "", after |-> in.rows]
  ELSE LET top == SetMax(Ids(in.rows))
           nid == [p \in Pairs(in) |-> top + p[2] + 1]
           st  == Run(in, [i \in 1..NRows(in) |-> mode], nid)
           ret == RetOf(in, st)
       IN [rej |-> FALSE, same |-> (st.tab = in.rows), retok |-> TRUE, recs |-> ret.recs,
           adds |-> ret.adds, upds |-> ret.upds, action |-> ret.action, after |-> st.tab]

=============================================================================
