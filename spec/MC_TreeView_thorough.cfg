INIT Init
NEXT Next
CONSTANTS MaxLen = 6
          MaxInd = 3
INVARIANT SpecSane
