-------------------------- MODULE Trace_SortedSearch --------------------------
(* Judges recorded observations of the real find.lt/le/gt/ge/eq, PREVIOUS, NEXT and RANK           *)
(* (harness/fn_sortedsearch.py) against SortedSearch!Fails / Clauses.                              *)
(* Case: [inp |-> the history (only inp.set is read here: which observers watched),                *)
(*        out |-> <<one observation per table state: [t, pr, f, p]>>  (see SortedSearch.tla;       *)
(*                t and pr are the STORED rows of T and O as read back from the engine),           *)
(*        exc |-> "" or the class of an exception that escaped a user action]                      *)
(* Every table state is judged against the content recorded at that state.                         *)
(* Verdicts: <<[i |-> case index, c |-> {failed clauses},                                          *)
(*             d |-> <<per state: {[k, o, r, op, want, got]}>>]>>                                      *)
EXTENDS SortedSearch, TLC, Json, IOUtils
Cases == JsonDeserialize(IOEnv.TRACE_FILE)
N == Len(Cases)
VARIABLES i, bad

StateFails(c, n) ==
  LET o == c.out[n]
  IN IF ~Decidable(o) \/ ~Shaped(c.inp.set, o)
     THEN {[k |-> "C14.undecidable", o |-> 0, r |-> 0, op |-> 0, want |-> 0, got |-> 0]}
     ELSE Fails(c.inp.set, o)

PerState(c) ==
  IF c.exc # "" \/ Len(c.out) # Len(c.inp.steps) + 1
  THEN <<{[k |-> "C14.raised", o |-> 0, r |-> 0, op |-> 0, want |-> 0, got |-> 0]}>>
  ELSE Fz([n \in 1..Len(c.out) |-> StateFails(c, n)])

Init == i = 0 /\ bad = <<>> /\ (N > 0 \/ JsonSerialize(IOEnv.OUT_FILE, <<>>))
Next ==
  /\ i < N
  /\ i' = i + 1
  /\ bad' = LET d == PerState(Cases[i + 1])
                j == UNION {{x.k : x \in d[n]} : n \in 1..Len(d)}
            IN IF j = {} THEN bad ELSE Append(bad, [i |-> i + 1, c |-> j, d |-> d])
  /\ (i' < N \/ JsonSerialize(IOEnv.OUT_FILE, bad'))
Spec == Init /\ [][Next]_<<i, bad>>
View == i
=============================================================================
