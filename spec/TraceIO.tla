------------------------------ MODULE TraceIO ------------------------------
(* The recorded-trace shard handed to TLC (path in the environment variable TRACE_FILE) and the  *)
(* judgement-free decode table for tokens: Ints[tok] = the integers a token denotes.             *)
EXTENDS Json, IOUtils, Sequences, Naturals
File == JsonDeserialize(IOEnv.TRACE_FILE)
Ints == File.ints
HasInt(tok) == tok \in DOMAIN Ints /\ Len(Ints[tok]) = 1
IntOf(tok)  == IF HasInt(tok) THEN Ints[tok][1] ELSE 0
IsIntList(tok) == tok \in DOMAIN Ints
IntsOf(tok) == IF tok \in DOMAIN Ints THEN Ints[tok] ELSE <<>>
IntSet(tok) == {IntsOf(tok)[k] : k \in 1..Len(IntsOf(tok))}
\* element tokens of a list token; raw text of identifier-like string tokens
Elems == IF "elems" \in DOMAIN File THEN File.elems ELSE <<>>
Strs  == IF "strs" \in DOMAIN File THEN File.strs ELSE <<>>
IsList(tok) == tok \in DOMAIN Elems
ElemsOf(tok) == IF tok \in DOMAIN Elems THEN Elems[tok] ELSE <<>>
HasStr(tok) == tok \in DOMAIN Strs
StrOf(tok) == IF tok \in DOMAIN Strs THEN Strs[tok] ELSE ""
=============================================================================
