------------------------------- MODULE MC_Rpc -------------------------------
(* Bounded design model of C24: every script of at most MaxLen calls over the call classes of Rpc.tla, *)
(* every interleaving of Node and the Python loop (the pipes make it almost sequential).              *)
(*   MC_Rpc_quick / _thorough : MarshalTotal = TRUE  (the hypothesis the conformance part tests):     *)
(*                               Atomic, Mirror, Delivered, InSync, SpecSane hold, no deadlock.       *)
(*   MC_Rpc_unsafe            : MarshalTotal = FALSE, the loop as coded: Atomic is VIOLATED           *)
(*                               (checks/C24.py requires the counterexample).                          *)
(*   MC_Rpc_revert            : MarshalTotal = FALSE, Revert = TRUE (hypothetical repair): Atomic,     *)
(*                               Mirror, InSync hold again; Delivered is not claimed.                  *)
(* The enumerated scripts are written to OUT_FILE; harness/fn_rpc.py runs each of them against the     *)
(* real loop (S->C).                                                                                   *)
EXTENDS Rpc, TLC, Json, IOUtils, SequencesExt, FiniteSetsExt
CONSTANTS MaxLen

Scripts == UNION {[1..n -> Kinds] : n \in 1..MaxLen}

\* sanity of the relation (evaluated once)
Obs(k, r, ch, hw, sy) == [kind |-> k, reply |-> r, w0 |-> "a", w1 |-> IF ch THEN "b" ELSE "a", hasw |-> hw, sync |-> sy]
ASSUME Clauses(Obs("apply_ok", "DATA", TRUE, TRUE, TRUE)) = {}
ASSUME Clauses(Obs("apply_hostile", "EXC", TRUE, FALSE, TRUE)) = {"C24.atomic", "C24.delivered"}
ASSUME Clauses(Obs("apply_hostile", "EXC", FALSE, FALSE, TRUE)) = {"C24.delivered"}
ASSUME Clauses(Obs("apply_hostile", "DATA", TRUE, FALSE, TRUE)) = {"C24.atomic"}
ASSUME Clauses(Obs("fetch_hostile", "EXC", FALSE, FALSE, TRUE)) = {"C24.delivered"}
ASSUME Clauses(Obs("fetch_hostile", "BROKEN", FALSE, FALSE, FALSE)) = {"C24.delivered", "C24.alive"}
ASSUME Clauses(Obs("apply_wire", "EXC", FALSE, FALSE, TRUE)) = {}
ASSUME Clauses(Obs("apply_wire", "DATA", TRUE, TRUE, TRUE)) = {}
ASSUME Clauses(Obs("apply_wire", "EXC", TRUE, FALSE, TRUE)) = {"C24.atomic"}
ASSUME Clauses(Obs("apply_bad", "EXC", FALSE, FALSE, TRUE)) = {}
ASSUME Clauses(Obs("apply_bad", "EXC", TRUE, FALSE, TRUE)) = {"C24.atomic"}
ASSUME Clauses(Obs("apply_bad", "DATA", FALSE, FALSE, TRUE)) = {"C24.conformance"}
ASSUME Clauses(Obs("apply_ext_exc", "EXC", FALSE, FALSE, TRUE)) = {}
ASSUME Clauses(Obs("fetch_ok", "DATA", FALSE, FALSE, FALSE)) = {"C24.alive"}
ASSUME Clauses([Obs("apply_ok", "EXC", TRUE, FALSE, TRUE) EXCEPT !.w1 = "?"]) = {"C24.delivered", "C24.conformance"}
ASSUME RtClauses([enc |-> "a", enc2 |-> "a", dumps |-> TRUE, back |-> "a"]) = {}
ASSUME RtClauses([enc |-> "a", enc2 |-> "b", dumps |-> TRUE, back |-> "a"]) = {"C24.roundtrip"}
ASSUME RtClauses([enc |-> "a", enc2 |-> "a", dumps |-> FALSE, back |-> ""]) = {"C24.marshal"}
ASSUME RtClauses([enc |-> "a", enc2 |-> "a", dumps |-> TRUE, back |-> "b"]) = {"C24.marshal"}
ASSUME \A k \in Kinds : Guaranteed(k) => Expected(k)[1] = "DATA"

ASSUME "OUT_FILE" \in DOMAIN IOEnv => JsonSerialize(IOEnv.OUT_FILE, SetToSeq(Scripts))

Init == InitWith(Scripts)
Spec == Init /\ [][Next]_vars
=============================================================================
