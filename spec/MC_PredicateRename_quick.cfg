INIT Init
NEXT Next
CONSTANTS MaxWide = 2
          MaxNarrow = 3
          Lanes = 16
          Full = TRUE
INVARIANT SpecSane
CHECK_DEADLOCK FALSE
