--------------------------- MODULE MC_TypeChange ---------------------------
(* Bounded design model of C23.  One state per input (plus seed states). An input is                                  *)
(*   [from, to, two, vis, raw, cells]                                                                *)
(*   from, to  the type of column T.X before the action and the type it is changed to                *)
(*   two       X is a two-way reference (U has the reverse column that AddReverseColumn creates)      *)
(*   vis       X shows U.N (visibleCol + display helper column, on the column and on one view field)  *)
(*   raw       the cells are stored with a doc action (as loaded) instead of a user action           *)
(*   cells     the requested contents of X (and of the bystander Y), row by row: names of the value  *)
(*             universe  i0 i1 i2 = 0 1 2, f15 = 1.5, se = '', sa = 'a', s1 = '1', nn = None,         *)
(*             bt = True, l1 = ['L', 1], dt = 1704067200 (a date); for references also l12 = ['L', 1, 2]  *)
(* Families (Fams, a sequence) are fully enumerated sub-spaces, see QuickFams / ThoroughFams.         *)
(*                                                                                                   *)
(* The model of the engine (EngineCase) is written as the steps of doModifyColumn over ABSTRACT       *)
(* tokens (the conversion is an uninterpreted function; `Any` keeps a value, a reference column       *)
(* treats lists / row ids differently from its type object).                                         *)
(* SpecSane: the relation of TypeChange.tla accepts what the modelled engine does, for every input.   *)
(* SpecSharp: it rejects, with the right clause, every listed corruption of that outcome.             *)
EXTENDS TypeChange, TLC, Json, IOUtils, SequencesExt
CONSTANTS Fams

Types == {"Text", "Int", "Numeric", "Bool", "Date", "Choice", "ChoiceList", "Any", "Ref:U", "RefList:U"}
RefTypes == {"Ref:U", "RefList:U"}
Univ == {"i0", "i1", "i2", "f15", "se", "sa", "s1", "nn", "bt", "l1", "dt"}
Sub4 == {"i1", "sa", "nn", "l1"}
Sub6 == {"i1", "f15", "sa", "nn", "bt", "l1"}
RefSub == {"i0", "i1", "i2", "sa", "nn", "l1", "l12"}
Cols(S, lo, hi) == UNION {[1..k -> S] : k \in lo..hi}
Fixed3 == { <<"i0", "s1", "bt">>, <<"f15", "se", "dt">>, <<"i2", "i1", "i1">>, <<"sa", "nn", "l1">>, <<"l1", "i1">> }
RefCols == { <<>>, <<"i1">>, <<"i1", "i2", "sa">>, <<"l12", "i1", "i0">>, <<"i2", "l12", "nn">> }
RawCols == { <<"i1", "f15", "bt">>, <<"sa", "nn", "l1">> }

Pairs == {p \in Types \X Types : p[1] # p[2]}
RefPairs == {p \in Pairs : p[1] \in RefTypes}
Plain == {<<FALSE, FALSE>>}
Linked == {<<TRUE, FALSE>>, <<FALSE, TRUE>>, <<TRUE, TRUE>>}

Fam(pairs, tv, raw, cols) == [pairs |-> pairs, tv |-> tv, raw |-> raw, cols |-> cols]
QuickFams == <<
  Fam(Pairs,    Plain,  FALSE, Fixed3 \cup {<<>>}),       \* every type pair x every value (rows are independent)
  Fam(Pairs,    Plain,  FALSE, Cols(Sub4, 1, 1)),         \* single cells
  Fam(RefPairs, Linked, FALSE, RefCols),                  \* two-way references, shown columns
  Fam(Pairs,    Plain,  TRUE,  RawCols) >>                \* contents as loaded
ThoroughFams == <<
  Fam(Pairs,    Plain,  FALSE, Cols(Univ, 0, 2)),
  Fam(Pairs,    Plain,  FALSE, Cols(Sub4, 3, 3)),
  Fam(RefPairs, Linked, FALSE, Cols(RefSub, 0, 2)),
  Fam(Pairs,    Plain,  TRUE,  Cols(Univ, 1, 1) \cup Cols(Sub4, 2, 2)) >>

InputsOf(fm) == {[from |-> p[1], to |-> p[2], two |-> tv[1], vis |-> tv[2], raw |-> fm.raw, cells |-> c] :
                   p \in fm.pairs, tv \in fm.tv, c \in fm.cols}

\* TLC's union of large sets of records is quadratic: the input space is never built as one set.
RECURSIVE AllInputsFrom(_)
AllInputsFrom(k) == IF k > Len(Fams) THEN <<>>
                    ELSE SetToSeq(InputsOf(Fams[k])) \o AllInputsFrom(k + 1)

\* TLC computes initial states (and their invariants) on one thread: the initial states are seeds, one
\* per (family, type pair), and the inputs are their successors.
SeedSet == UNION {{<<k, p>> : p \in Fams[k].pairs} : k \in 1..Len(Fams)}
Slice(sd) == InputsOf([Fams[sd[1]] EXCEPT !.pairs = {sd[2]}])

ASSUME "OUT_FILE" \in DOMAIN IOEnv =>
         JsonSerialize(IOEnv.OUT_FILE, [seeds |-> Cardinality(SeedSet), inputs |-> AllInputsFrom(1)])

Valid(in) == /\ in.from # in.to
             /\ (in.two \/ in.vis) => in.from \in RefTypes

\* --- abstract tokens and the modelled document ---------------------------------------------------
Tok(k, ty, v) == [k |-> k, ty |-> ty, v |-> v]
StoredTok(in, v) == Tok("st", in.from, v)
\* the type's conversion: `Any` keeps every value, every other type maps it somewhere else
ConvTok(to, p) == IF to = "Any" THEN p ELSE Tok("cv", to, p.v)
\* the column's conversion: reference columns treat lists and row ids in their own way
CConvTok(to, p) == IF IsRef(to) /\ p.v \in {"l1", "l12", "i1", "i2"} THEN Tok("ccv", to, p.v) ELSE ConvTok(to, p)

E(t, c, r, k) == [t |-> t, c |-> c, r |-> r, k |-> k]
M(t, c) == [t |-> t, c |-> c]
XRef == 4
Fields == <<4, 8, 12>>
HelperRef == 13
FCols(in) ==
  << [t |-> "T", c |-> "F", ref |-> 5, m |-> <<M("T", "X")>>],
     [t |-> "T", c |-> "G", ref |-> 7, m |-> <<M("T", "Y")>>],
     [t |-> "Z", c |-> "H", ref |-> 10, m |-> <<M("Z", "X")>>] >> \o
  (IF in.two THEN << [t |-> "U", c |-> "gristHelper_Display", ref |-> 12, m |-> <<M("U", "T")>>] >> ELSE <<>>) \o
  (IF in.vis THEN << [t |-> "T", c |-> "gristHelper_Display", ref |-> HelperRef,
                      m |-> <<M("T", "X"), M("U", "N")>>] >> ELSE <<>>)

\* --- the modelled engine: doModifyColumn, step by step --------------------------------------------
N(in) == Len(in.cells)
Prev(in) == [j \in 1..N(in) |-> StoredTok(in, in.cells[j])]
Refuses(in) == in.two /\ ~Compatible(in.from, in.to)
\* 1. every old value is converted by the new column; 2. only values that differ are set
NewVal(in, j) == CConvTok(in.to, Prev(in)[j])
Rows(in, refused) ==
  [j \in 1..N(in) |-> [r |-> j, prev |-> Prev(in)[j], conv |-> ConvTok(in.to, Prev(in)[j]),
                       cconv |-> CConvTok(in.to, Prev(in)[j]),
                       after |-> IF refused THEN Prev(in)[j] ELSE NewVal(in, j)]]
RECURSIVE SeqOfSet(_)
SeqOfSet(S) == IF S = {} THEN <<>> ELSE LET x == CHOOSE y \in S : TRUE IN <<x>> \o SeqOfSet(S \ {x})
Changed(in) ==
  LET set == {j \in 1..N(in) : NewVal(in, j) # Prev(in)[j]}
      keepsHelper == Compatible(in.from, in.to)
  IN  SeqOfSet({E("T", "X", j, "upd") : j \in set}) \o
      \* 3. the metadata record follows, the shown column is reset unless the reference stays one
      << E("_grist_Tables_column", "type", XRef, "upd") >> \o
      (IF in.vis /\ ~keepsHelper
         THEN << E("_grist_Tables_column", "displayCol", XRef, "upd"),
                 E("_grist_Tables_column", "visibleCol", XRef, "upd"),
                 E("_grist_Views_section_field", "displayCol", Fields[1], "upd"),
                 E("_grist_Views_section_field", "visibleCol", Fields[1], "upd"),
                 E("_grist_Tables_column", "*", HelperRef, "del"),
                 E("T", "gristHelper_Display", 0, "coldel") >>
         ELSE <<>>) \o
      \* 4. a two-way reference rebuilds its reverse column
      (IF in.two THEN << E("U", "T", 1, "upd"), E("U", "T", 2, "upd"),
                         E("U", "gristHelper_Display", 1, "upd") >> ELSE <<>>) \o
      \* 5. the formulas that read X are recalculated
      SeqOfSet({E("T", "F", j, "upd") : j \in 1..N(in)}) \o
      (IF in.vis /\ keepsHelper THEN SeqOfSet({E("T", "gristHelper_Display", j, "upd") : j \in 1..N(in)})
       ELSE <<>>)

EngineCase(in) ==
  LET refused == Refuses(in)
  IN [from |-> in.from, to |-> in.to, two |-> in.two,
      exc |-> IF refused THEN "ValueError" ELSE "",
      typ |-> IF refused THEN in.from ELSE in.to, styp |-> IF refused THEN in.from ELSE in.to,
      rows |-> Rows(in, refused), changed |-> IF refused THEN <<>> ELSE Changed(in),
      xref |-> XRef, fields |-> Fields, disp |-> IF in.vis THEN <<HelperRef>> ELSE <<>>,
      rev |-> IF in.two THEN M("U", "T") ELSE M("", ""), fcols |-> FCols(in)]

\* --- corruptions of the outcome and the clause that must reject each ------------------------------
Plus(c, e) == [c EXCEPT !.changed = Append(c.changed, e)]
Mutants(in) ==
  LET c == EngineCase(in)
      conv1 == N(in) > 0 /\ c.rows[1].after # c.rows[1].prev
  IN IF c.exc # ""
     THEN { <<[c EXCEPT !.exc = "TypeError"], "C23.raised">>,
            <<[c EXCEPT !.exc = ""], "C23.applied">> }     \* returns normally, type not changed
     ELSE { <<Plus(c, E("T", "Y", 1, "upd")), "C23.frame">>,            \* the bystander column
            <<Plus(c, E("T", "G", 1, "upd")), "C23.frame">>,            \* a formula that does not read X
            <<Plus(c, E("Z", "X", 1, "upd")), "C23.frame">>,            \* same column id, other table
            <<Plus(c, E("Z", "H", 1, "upd")), "C23.frame">>,
            <<Plus(c, E("U", "N", 1, "upd")), "C23.frame">>,            \* the referenced table
            <<Plus(c, E("T", "*", 1, "del")), "C23.frame">>,            \* a record lost
            <<Plus(c, E("T", "manualSort", 1, "upd")), "C23.frame">>,
            <<Plus(c, E("_grist_Tables_column", "type", XRef + 2, "upd")), "C23.frame">>,   \* Y's type
            <<Plus(c, E("_grist_Tables_column", "colId", XRef, "upd")), "C23.frame">>,
            <<Plus(c, E("_grist_Tables_column", "*", 5, "del")), "C23.frame">>,   \* F's record
            <<Plus(c, E("T", "F", 0, "coldel")), "C23.frame">>,
            <<Plus(c, E("_grist_Views_section_field", "displayCol", 5, "upd")), "C23.frame">>,
            <<Plus(c, E("_grist_Views_section_field", "parentPos", Fields[1], "upd")), "C23.frame">>,
            <<[c EXCEPT !.exc = "AssertionError"], "C23.raised">>,
            <<[c EXCEPT !.typ = in.from], "C23.applied">>,
            <<[c EXCEPT !.styp = in.from], "C23.applied">> } \cup
          (IF ~in.two THEN { <<Plus(c, E("U", "T", 1, "upd")), "C23.frame">> } ELSE {}) \cup
          \* a value left as it was although its conversion is another value
          (IF conv1 THEN { <<[c EXCEPT !.rows[1].after = c.rows[1].prev], "C23.cells">>,
                           <<[c EXCEPT !.rows[1].after = Tok("cv", in.from, c.rows[1].prev.v)], "C23.cells">> }
           ELSE {})

VARIABLES kind, input
Init == kind = "seed" /\ input \in SeedSet
Next == \/ kind = "seed" /\ kind' = "input" /\ input' \in Slice(input)
        \/ kind = "input" /\ UNCHANGED <<kind, input>>
SpecSane == kind = "input" => Valid(input) /\ Ok(EngineCase(input))
SpecSharp == kind = "input" => \A mu \in Mutants(input) : mu[2] \in Judge(mu[1])
=============================================================================
