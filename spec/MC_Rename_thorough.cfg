INIT Init
NEXT Next
CONSTANTS Level = 2
          Full = TRUE
          Lanes = 32
INVARIANT SpecSane
CHECK_DEADLOCK FALSE
