INIT Init
NEXT Next
CONSTANTS Level = 2
          Full = TRUE
INVARIANT SpecSane
CHECK_DEADLOCK FALSE
