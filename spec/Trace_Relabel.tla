---------------------------- MODULE Trace_Relabel ----------------------------
(* Judges recorded calls of the real relabeling.prepare_inserts against Relabel!Clauses.          *)
(* Cases: <<[inp |-> (replay information, not read here),                                          *)
(*           out |-> [old |-> <<<<kind, rank>>, ...>>, req |-> <<<<kind, rank>>, ...>>,            *)
(*                    adj |-> <<<<index0, kind, rank>>, ...>>, new |-> <<<<kind, rank>>, ...>>],    *)
(*           exc |-> ""]>>                                                                          *)
(* "C20.pre" is not a violation of the property: it marks a case whose input does not satisfy the *)
(* precondition (existing positions finite and strictly increasing, requests not NaN).             *)
EXTENDS Relabel, TLC, Json, IOUtils
Cases == JsonDeserialize(IOEnv.TRACE_FILE)
N == Len(Cases)
VARIABLES i, bad
Judge(c) ==
  LET in == [old |-> c.out.old, req |-> c.out.req]
  IN IF ~Pre(in) THEN {"C20.pre"}
     ELSE IF c.exc # "" THEN {"C20.raised"}
     ELSE Clauses(in, [adj |-> c.out.adj, new |-> c.out.new])
Init == i = 0 /\ bad = <<>> /\ (N > 0 \/ JsonSerialize(IOEnv.OUT_FILE, <<>>))
Next ==
  /\ i < N
  /\ i' = i + 1
  /\ bad' = LET j == Judge(Cases[i + 1])
            IN IF j = {} THEN bad ELSE Append(bad, [i |-> i + 1, c |-> j])
  /\ (i' < N \/ JsonSerialize(IOEnv.OUT_FILE, bad'))
Spec == Init /\ [][Next]_<<i, bad>>
View == i
=============================================================================
