INIT Init
NEXT Next
CONSTANTS MaxLen = 3
          MarshalTotal = TRUE
          Revert = FALSE
INVARIANT Atomic
INVARIANT Mirror
INVARIANT Delivered
INVARIANT InSync
INVARIANT SpecSane
CHECK_DEADLOCK TRUE
