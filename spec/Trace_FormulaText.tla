-------------------------- MODULE Trace_FormulaText --------------------------
(* Judges recorded runs of the real engine (harness/fn_formulatext.py) against FormulaText.         *)
(* A case:                                                                                         *)
(*   inp = [tree   : the formula tree F's text was rendered from, or <<"NoTree">>,                  *)
(*          spell, ftext, pytext : the spelling, F's text, the plain-Python text (atoms),           *)
(*          xkind, xpos, xnl, xtext, xlen : X's text and where it came from (atoms, not inspected), *)
(*          how    : "modify" | "meta" - the user action that set the formulas (ModifyColumn /      *)
(*                   UpdateRecord on _grist_Tables_column), src : where the item came from,         *)
(*          rows, newrow]                                                                          *)
(*   out = [f_ok, f_exc, s1, x_ok, x_exc, same, s2, xclass, add_ok, add_exc, s3, fix_ok, fix_exc,   *)
(*          s4, elsewhere, consistent, py]   as described in FormulaText                            *)
(* Verdict per case: failed clauses "C19.*" (the property) and "SPEC.*" (the specification or the   *)
(* renderer disagrees with Python itself on the tree: machinery, never a violation).                *)
EXTENDS FormulaText, TLC, Json, IOUtils
Cases == JsonDeserialize(IOEnv.TRACE_FILE)
N == Len(Cases)
VARIABLES cur, bad

Judge(c) ==
  LET hastree == HasTree(c.inp)
      wf == ~hastree \/ WFF(c.inp.tree)
      pyran == \A r \in 1..Len(c.out.py) : Tag(c.out.py[r]) # "nopy"
      E == Expect(c.inp, c.out.add_ok)          \* computed once per case
      base == FClausesE(c.inp, c.out, E)
      agrees == ~hastree \/ ~wf \/ ~pyran \/ PyAgreesE(c.inp, c.out, E)
  IN (IF wf THEN {} ELSE {"SPEC.tree"})
     \cup (IF hastree /\ ~pyran THEN {"SPEC.render"} ELSE {})
     \cup (IF agrees THEN base ELSE (base \ {"C19.meaning"}) \cup {"SPEC.sem"})

Init == cur = 0 /\ bad = <<>> /\ (N > 0 \/ JsonSerialize(IOEnv.OUT_FILE, <<>>))
Next ==
  /\ cur < N
  /\ cur' = cur + 1
  /\ bad' = LET j == Judge(Cases[cur + 1])
            IN IF j = {} THEN bad ELSE Append(bad, [i |-> cur + 1, c |-> j])
  /\ (cur' < N \/ JsonSerialize(IOEnv.OUT_FILE, bad'))
Spec == Init /\ [][Next]_<<cur, bad>>
View == cur
=============================================================================
