SPECIFICATION Spec
CONSTANTS ColSeq <- Cols2
          Rows = {1, 2}
          AllowCross = TRUE
INVARIANT NoProgressFailureUnreachable
INVARIANT FinalValues
INVARIANT LockDiscipline
INVARIANT CleanEnd
PROPERTY Termination
CHECK_DEADLOCK FALSE
