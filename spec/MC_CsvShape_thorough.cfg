INIT Init
NEXT Next
CHECK_DEADLOCK FALSE
CONSTANTS MaxW = 3
          MaxWA = 2
          CountsA = {1, 2, 99, 100, 101}
          KindsA = {"e", "a", "1"}
          MaxSegsA = 3
          CountsB = {1, 2}
          MaxSegsB = 2
          Holes = TRUE
          Delims = {"comma", "semi", "tab", "pipe"}
          Quotes = {"dq", "sq"}
INVARIANT SpecSane
