SPECIFICATION Spec
CHECK_DEADLOCK FALSE
CONSTANTS AddIds <- Ids4
          BulkAddIds <- Bulk3
          RefVals <- Refs3
          ListVals <- Lists3
          BulkRefVals <- BulkRefs1
          AddrIds <- Addr3
          BulkAddrIds <- BulkAddr2
          UpdRefVals <- Refs1
          UpdListVals <- Lists1
          RemIds <- Addr3
          BulkRemIds <- Bulk1
          MaxLen = 3
INVARIANT SpecSane
INVARIANT Resolved
INVARIANT Sharp
