----------------------------- MODULE FormulaText -----------------------------
(***************************************************************************)
(* C19 - invalid formulas are isolated and valid ones mean what they say    *)
(* (sandbox/grist/codebuilder.py make_formula_body, gencode.py make_module) *)
(*                                                                         *)
(* TLA+ cannot parse Python.  What it defines here is                       *)
(*  (A) the MEANING of an abstract formula tree on a row: FEval(tree, env),  *)
(*      built on Predicate!Eval/Apply (Python operator semantics on tagged   *)
(*      values) plus the nodes a formula has beyond a predicate:             *)
(*        <<"Cond", c, t, e>>    t if c else e / an if-else block            *)
(*        <<"Let", n, e, body>>  a statement `n = e` before the last         *)
(*                               expression statement                        *)
(*        <<"Fmt", e>>           str(e) / an f-string replacement field      *)
(*      A string constant is just a value: "$a" or "rec.b" INSIDE a string   *)
(*      is text, whatever the spelling of the literal;                       *)
(*  (B) the ISOLATION relation between the document before and after an      *)
(*      arbitrary text is set as the formula of one column X.                *)
(*                                                                         *)
(* The document (built by harness/fn_formulatext.py on the real engine):     *)
(*   table T, data columns a, b (Int), formula columns in this order         *)
(*     F = the formula under test (a spelling of inp.tree)                   *)
(*     G = $a + 1     H = $b * 2     X = adversarial text (starts as 1)      *)
(*     K = $G + 1     R = $X  (reads X, so it may hold errors too)           *)
(*   (a column whose formula is modified is re-created at the END of the     *)
(*   generated class, so X's code is followed by the metadata tables' code)  *)
(*   rows inp.rows = <<<<a, b>>, ...>>.                                      *)
(* Steps recorded in a case (`out`), each snapshot s = [F, G, H, K, X, R]    *)
(* with one tagged value per row (Predicate's value domain; an error cell of *)
(* any class is <<"err", 0>>):                                               *)
(*   1. set F's formula to inp.ftext              f_ok, s1                   *)
(*   2. set X's formula to inp.xtext              x_ok, same, s2             *)
(*        same = every table of the document (metadata included) is equal    *)
(*               to what it was before step 2                                *)
(*   3. AddRecord a = inp.newrow[1], b = inp.newrow[2]     add_ok, s3        *)
(*   4. set X's formula to `$a * 3`               fix_ok, s4                 *)
(*   elsewhere = number of error cells in tables other than T (after 2..4)   *)
(*   consistent = Engine.assert_schema_consistent() held after 2, 3 and 4    *)
(*   py = Python's own result of the text (rec. spelling) per row            *)
(***************************************************************************)
EXTENDS Predicate

C(n) == <<"Const", VInt(n)>>
S(cp) == <<"Const", VStr(cp)>>
Rec(col) == <<"Attr", <<"Name", "rec">>, col>>
RecA == Rec("a")
RecB == Rec("b")
LetName == "y"
Y == <<"Name", LetName>>
\* NoTree == <<"NoTree">> comes from Predicate

\* ---- (A) the meaning of a formula tree ----------------------------------------------------------
RECURSIVE DecStr(_)
DecStr(n) == IF n < 10 THEN <<48 + n>> ELSE Append(DecStr(n \div 10), 48 + (n % 10))

\* str(v) for the values whose text is fixed by the language definition
StrOf(v) ==
  CASE Tag(v) = "int"  -> VStr(IF Pay(v) < 0 THEN <<45>> \o DecStr(-Pay(v)) ELSE DecStr(Pay(v)))
    [] Tag(v) = "str"  -> v
    [] Tag(v) = "bool" -> VStr(IF Pay(v) THEN <<84, 114, 117, 101>> ELSE <<70, 97, 108, 115, 101>>)
    [] Tag(v) = "none" -> VStr(<<78, 111, 110, 101>>)
    [] OTHER -> Undef

Bind(env, n, v) == [m \in DOMAIN env \cup {n} |-> IF m = n THEN v ELSE env[m]]

RECURSIVE FEval(_, _), FBool(_, _, _, _)
FBool(k, t, i, env) ==
  LET v == FEval(t[i], env) IN
  IF Stop(v) THEN v
  ELSE IF ~HasTruth(v) THEN Undef
  ELSE IF i = Len(t) THEN v
  ELSE IF (k = "And") = Truthy(v) THEN FBool(k, t, i + 1, env) ELSE v

FEval(t, env) ==
  LET k == t[1] IN
  CASE k = "Cond" -> LET c == FEval(t[2], env) IN
                     IF Stop(c) THEN c ELSE IF ~HasTruth(c) THEN Undef
                     ELSE IF Truthy(c) THEN FEval(t[3], env) ELSE FEval(t[4], env)
    [] k = "Let"  -> LET v == FEval(t[3], env) IN IF Stop(v) THEN v ELSE FEval(t[4], Bind(env, t[2], v))
    [] k = "Fmt"  -> LET v == FEval(t[2], env) IN IF Stop(v) THEN v ELSE StrOf(v)
    [] k = "Not"  -> LET v == FEval(t[2], env)
                     IN IF Stop(v) THEN v ELSE IF ~HasTruth(v) THEN Undef ELSE VBool(~Truthy(v))
    [] k \in {"And", "Or"} -> FBool(k, t, 2, env)
    [] k \in BinOps -> LET a == FEval(t[2], env) IN
                       IF Stop(a) THEN a
                       ELSE LET b == FEval(t[3], env) IN IF Stop(b) THEN b ELSE Apply(k, a, b)
    [] OTHER -> Eval(t, env)            \* Const, Name, Attr: Predicate's node semantics

\* well-formed formula trees (Let only at the root: a statement, not an expression)
RECURSIVE WFE(_, _)
WFE(t, names) ==
  LET k == t[1]  n == Len(t) - 1 IN
  CASE k = "Cond" -> n = 3 /\ \A i \in 2..4 : WFE(t[i], names)
    [] k \in {"Fmt", "Not"} -> n = 1 /\ WFE(t[2], names)
    [] k \in {"And", "Or"} -> n >= 2 /\ \A i \in 2..Len(t) : WFE(t[i], names)
    [] k \in BinOps -> n = 2 /\ WFE(t[2], names) /\ WFE(t[3], names)
    [] k = "Const" -> n = 1 /\ Tag(t[2]) \in {"int", "str", "bool", "none"}
    [] k = "Name"  -> n = 1 /\ t[2] \in names
    [] k = "Attr"  -> n = 2 /\ t[2] = <<"Name", "rec">> /\ t[3] \in {"a", "b"}
    [] OTHER -> FALSE
WFF(t) == IF t[1] = "Let" THEN Len(t) = 4 /\ WFE(t[3], {}) /\ WFE(t[4], {t[2]}) ELSE WFE(t, {})

IsStrConst(t) == t[1] = "Const" /\ Tag(t[2]) = "str"
Test(t, what) ==
  CASE what = "str"    -> IsStrConst(t)
    [] what = "fmt"    -> t[1] = "Fmt"
    [] what = "dollar" -> IsStrConst(t) /\ \E i \in 1..Len(Pay(t[2])) : Pay(t[2])[i] = 36
    [] what = "nl"     -> IsStrConst(t) /\ \E i \in 1..Len(Pay(t[2])) : Pay(t[2])[i] = 10
RECURSIVE Has(_, _)
Has(t, what) ==
  \/ Test(t, what)
  \/ LET k == t[1] IN
     CASE k \in {"Const", "Name", "Attr"} -> FALSE
       [] k = "Let" -> Has(t[3], what) \/ Has(t[4], what)
       [] OTHER -> \E i \in 2..Len(t) : Has(t[i], what)
HasStr(t) == Has(t, "str")
HasFmt(t) == Has(t, "fmt")
DollarInString(t) == Has(t, "dollar")     \* a "$" that must stay text
MultiLineString(t) == Has(t, "nl")

\* ---- the document -------------------------------------------------------------------------------
\* the known-good formula columns, in dependency order
Known == << [col |-> "G", tree |-> <<"Add", RecA, C(1)>>],
            [col |-> "H", tree |-> <<"Mult", RecB, C(2)>>],
            [col |-> "K", tree |-> <<"Add", Rec("G"), C(1)>>] >>
KnownCols == {Known[i].col : i \in 1..Len(Known)}
FixTree == <<"Mult", RecA, C(3)>>          \* step 4: X = $a * 3  (and R = $X follows)
XInit == C(1)                              \* X before step 2

RECURSIVE Extend(_, _)
Extend(rec, i) ==
  IF i > Len(Known) THEN rec
  ELSE Extend(Bind(rec, Known[i].col, FEval(Known[i].tree, [rec |-> VObj(rec)])), i + 1)
RowRec(row) == Extend([a |-> VInt(row[1]), b |-> VInt(row[2])], 1)
RowEnv(row) == [rec |-> VObj(RowRec(row))]
ExpF(tree, row) == FEval(tree, RowEnv(row))
ExpKnown(col, row) == RowRec(row)[col]

\* ---- (B) the relation between a case's input and its recorded output ----------------------------
\* Everything the relation needs to know about the rows, computed once per case (TLC evaluates
\* function constructors lazily; the recursive builders give real tuples):
\*   rows = the rows present after step 3, n = the number of rows before it,
\*   recs[r] = the record of row r (a, b and the known-good columns), f[r] = the meaning of the tree,
\*   fix[r] = the meaning of the repaired X
RECURSIVE RecsOf(_, _), EvalAll(_, _, _)
RecsOf(rows, i) == IF i > Len(rows) THEN <<>> ELSE <<RowRec(rows[i])>> \o RecsOf(rows, i + 1)
EvalAll(tree, recs, i) ==
  IF i > Len(recs) THEN <<>> ELSE <<FEval(tree, [rec |-> VObj(recs[i])])>> \o EvalAll(tree, recs, i + 1)
HasTree(inp) == inp.tree # NoTree
Expect(inp, added) ==
  LET rows == IF added THEN Append(inp.rows, inp.newrow) ELSE inp.rows
      recs == RecsOf(rows, 1)
  IN [rows |-> rows, n |-> Len(inp.rows), m |-> Len(rows), recs |-> recs,
      f |-> IF HasTree(inp) THEN EvalAll(inp.tree, recs, 1) ELSE <<>>,
      fix |-> EvalAll(FixTree, recs, 1)]

ValOk(exp, got) == Tag(exp) = "undef" \/ exp = got
IsErr(v) == Tag(v) = "err"
ColIs(cells, exp, n) == Len(cells) = n /\ \A r \in 1..n : ValOk(exp[r], cells[r])

\* C19.meaning: the cell of F is the meaning of the tree, in every row
Meaning(inp, out, E) == ~HasTree(inp) \/ (out.f_ok /\ ColIs(out.s1.F, E.f, E.n))
\* the same question asked of Python's own result: is the specification / the renderer right?
PyAgreesE(inp, out, E) == ~HasTree(inp) \/ ColIs(out.py, E.f, E.n)

\* C19.ok: the bundle that sets X's formula succeeds - or it is rejected and nothing changed
\* (and the engine's own schema consistency assertion holds after steps 2, 3 and 4)
BundleOk(inp, out) == (out.x_ok \/ (out.same /\ out.s2 = out.s1)) /\ out.consistent

\* C19.others: G, H, K (and F) keep their correct values in every later snapshot
KnownOk(s, E, n) ==
  \A i \in 1..Len(Known) : LET c == Known[i].col IN
    Len(s[c]) = n /\ \A r \in 1..n : ValOk(E.recs[r][c], s[c][r])
FKept(inp, out, s, E, n) ==
  /\ Len(s.F) = n
  /\ \A r \in 1..n :
       IF r <= Len(out.s1.F) THEN s.F[r] = out.s1.F[r]                   \* an old row: unchanged
       ELSE ~(HasTree(inp) /\ out.f_ok) \/ ValOk(E.f[r], s.F[r])         \* the added row
Others(inp, out, E) ==
  /\ KnownOk(out.s1, E, E.n) /\ KnownOk(out.s2, E, E.n) /\ KnownOk(out.s3, E, E.m) /\ KnownOk(out.s4, E, E.m)
  /\ FKept(inp, out, out.s2, E, E.n) /\ FKept(inp, out, out.s3, E, E.m) /\ FKept(inp, out, out.s4, E, E.m)

\* C19.loc: error cells occur only in X, in R (which reads X), or in F where the error is its value
ErrFree(cells) == \A r \in 1..Len(cells) : ~IsErr(cells[r])
FErrOk(inp, out, s, E) ==
  \A r \in 1..Len(s.F) :
    IsErr(s.F[r]) => IF r <= Len(out.s1.F) THEN IsErr(out.s1.F[r])
                     ELSE HasTree(inp) /\ r <= E.m /\ Stop(E.f[r])
LocIn(inp, out, s, E) == (\A i \in 1..Len(Known) : ErrFree(s[Known[i].col])) /\ FErrOk(inp, out, s, E)
Loc(inp, out, E) ==
  /\ out.elsewhere = 0
  /\ LocIn(inp, out, out.s2, E) /\ LocIn(inp, out, out.s3, E) /\ LocIn(inp, out, out.s4, E)

\* C19.usable: a following AddRecord works and computes the new row; the formula can be repaired
Usable(inp, out, E) ==
  /\ out.add_ok
  /\ E.m = E.n + 1
  /\ \A i \in 1..Len(Known) : LET c == Known[i].col IN
       Len(out.s3[c]) = E.m /\ ValOk(E.recs[E.m][c], out.s3[c][E.m])
  /\ out.fix_ok
  /\ ColIs(out.s4.X, E.fix, E.m)
  /\ ColIs(out.s4.R, E.fix, E.m)

FClausesE(inp, out, E) ==
  (IF Meaning(inp, out, E) THEN {} ELSE {"C19.meaning"})
  \cup (IF BundleOk(inp, out) THEN {} ELSE {"C19.ok"})
  \cup (IF Others(inp, out, E) THEN {} ELSE {"C19.others"})
  \cup (IF Loc(inp, out, E) THEN {} ELSE {"C19.loc"})
  \cup (IF Usable(inp, out, E) THEN {} ELSE {"C19.usable"})
FClauses(inp, out) == FClausesE(inp, out, Expect(inp, out.add_ok))
FOk(inp, out) == FClauses(inp, out) = {}

\* ---- reference outcome (non-vacuity: the relation is satisfiable on every input) -----------------
\* xs = what X holds per row (any values: no oracle for X); accepted = the bundle of step 2
Column(E, c, n) == [r \in 1..n |-> E.recs[r][c]]
Snap(E, n, xs) ==
  [F |-> SubSeq(E.f, 1, n), G |-> Column(E, "G", n), H |-> Column(E, "H", n), K |-> Column(E, "K", n),
   X |-> xs, R |-> xs]
Fill(n, v) == [r \in 1..n |-> v]
Ref(inp, accepted) ==
  LET E == Expect(inp, TRUE)
      s1 == Snap(E, E.n, Fill(E.n, VInt(1)))
  IN [f_ok |-> TRUE, f_exc |-> "", s1 |-> s1,
      py |-> s1.F,
      x_ok |-> accepted, x_exc |-> IF accepted THEN "" ELSE "SyntaxError", same |-> ~accepted,
      s2 |-> IF accepted THEN Snap(E, E.n, Fill(E.n, Err)) ELSE s1,
      add_ok |-> TRUE, add_exc |-> "",
      s3 |-> Snap(E, E.m, Fill(E.m, IF accepted THEN Err ELSE VInt(1))),
      fix_ok |-> TRUE, fix_exc |-> "",
      s4 |-> Snap(E, E.m, E.fix),
      elsewhere |-> 0, consistent |-> TRUE]

\* values of the bounded model stay inside the value universe
IsCell(v) ==
  CASE Tag(v) \in {"int", "float"} -> Pay(v) \in -Bound..Bound
    [] Tag(v) = "bool" -> Pay(v) \in BOOLEAN
    [] Tag(v) = "str"  -> Len(Pay(v)) <= MaxSeq /\ \A i \in 1..Len(Pay(v)) : Pay(v)[i] \in 0..127
    [] Tag(v) \in {"none", "err", "undef"} -> Pay(v) = 0
    [] OTHER -> FALSE
=============================================================================
