------------------------------ MODULE FetchQuery ------------------------------
(***************************************************************************)
(* C41 - Engine.fetch_table(table_id, formulas, private, query)            *)
(* (sandbox/grist/engine.py).                                              *)
(*                                                                         *)
(* Query(table, query, flags): the rows, in ascending row id order, whose  *)
(* STORED value in EVERY queried column is among that column's requested   *)
(* values - "among" meaning Python equality (PyEq below) - and exactly the *)
(* requested kinds of columns: formula columns only with formulas=true,    *)
(* private columns only with private=true, never `id`, never virtual       *)
(* ('#...') columns.                                                       *)
(*                                                                         *)
(* Cell and query values are small integer CODES into the explicit value   *)
(* universe `Universe` of tagged values.  A tagged value has the uniform   *)
(* shape [k, n, s, l]:                                                     *)
(*   k = "i" int, "f" float, "b" bool, "s" str, "z" None, "l" list         *)
(*   n = TWICE the numeric value (so 1.5 is 3); 0 for non-numbers          *)
(*   s = the text of a str; "" otherwise                                   *)
(*   l = the elements of a list (tagged values again); <<>> otherwise      *)
(* Codes >= Opaque are per-case tokens of values outside the universe      *)
(* (error objects, records...): only their identity is known; they never   *)
(* occur in a queried column or in a query.                                *)
(***************************************************************************)
EXTENDS Naturals, Integers, Sequences, FiniteSets

Sc(k, n, s) == [k |-> k, n |-> n, s |-> s, l |-> <<>>]
I(x)   == Sc("i", 2 * x, "")
Fl(x2) == Sc("f", x2, "")            \* argument is twice the float
Bo(b)  == Sc("b", IF b THEN 2 ELSE 0, "")
St(s)  == Sc("s", 0, s)
No     == Sc("z", 0, "")
Li(q)  == [k |-> "l", n |-> 0, s |-> "", l |-> q]

\* code c denotes Universe[c + 1]
Universe == <<
  I(0), I(1), Bo(FALSE), Bo(TRUE), St(""), St("a"), No, Li(<<I(1)>>), Li(<<I(1), I(2)>>),   \*  0.. 8
  Fl(0), Fl(2), Fl(4), Fl(6), Fl(8), Fl(10), Fl(12), Fl(14), Fl(16), Fl(3),                  \*  9..18
  I(2), I(3), I(4), I(5), I(6), I(7), I(8), I(-1),                                           \* 19..26
  St("b"), St("1"),                                                                          \* 27..28
  Li(<<>>), Li(<<Bo(TRUE)>>), Li(<<Fl(2), I(2)>>), Li(<<I(2), I(1)>>), Li(<<No>>),           \* 29..33
  Li(<<St("a")>>), Li(<<Li(<<I(1)>>)>>), Li(<<I(0)>>), Li(<<Bo(FALSE)>>),                    \* 34..37
  Li(<<Li(<<Fl(2)>>)>>), Li(<<I(1), Li(<<I(2)>>)>>)                                          \* 38..39
>>
Opaque == 1000
Known(c) == c \in 0..(Len(Universe) - 1)
Val(c) == Universe[c + 1]

IsNum(v) == v.k \in {"i", "f", "b"}

\* Python ==  on the universe: 1 = 1.0 = True, 0 = 0.0 = False; a str only equals the same str;
\* None only None; lists by content (element-wise ==); a list never equals a non-list.
RECURSIVE PyEq(_, _)
PyEq(a, b) ==
  CASE IsNum(a) /\ IsNum(b)       -> a.n = b.n
    [] a.k = "s" /\ b.k = "s"     -> a.s = b.s
    [] a.k = "z" /\ b.k = "z"     -> TRUE
    [] a.k = "l" /\ b.k = "l"     -> /\ Len(a.l) = Len(b.l)
                                     /\ \A j \in 1..Len(a.l) : PyEq(a.l[j], b.l[j])
    [] OTHER                      -> FALSE

\* ---------------------------------------------------------------------------------------------
\* Stored table  st = [ids  |-> <<row ids>>,
\*                     cols |-> <<[id |-> col id, h |-> col id starts with '#', fm |-> formula column,
\*                                 pv |-> private column, v |-> <<codes, aligned with ids>>], ...>>]
\* Query         q  = <<[c |-> col id, v |-> <<codes>>], ...>>      (distinct columns)
\* Designed      dk = <<[id |-> col id, fm |-> BOOLEAN], ...>>  columns the harness created itself
\* Output        out = [rows |-> <<row ids>>, cols |-> <<[id |-> col id, v |-> <<codes>>], ...>>]

ColIdx(st, cid) == CHOOSE k \in 1..Len(st.cols) : st.cols[k].id = cid
HasCol(st, cid) == \E k \in 1..Len(st.cols) : st.cols[k].id = cid

Among(c, codes) == \E j \in 1..Len(codes) : PyEq(Val(c), Val(codes[j]))

RowMatches(st, q, k) ==
  \A e \in 1..Len(q) : Among(st.cols[ColIdx(st, q[e].c)].v[k], q[e].v)

MatchIds(st, q) == {st.ids[k] : k \in {k \in 1..Len(st.ids) : RowMatches(st, q, k)}}

RECURSIVE SortAsc(_)
SortAsc(S) ==
  IF S = {} THEN <<>>
  ELSE LET m == CHOOSE x \in S : \A y \in S : x <= y IN <<m>> \o SortAsc(S \ {m})

ExpectedRows(st, q) == SortAsc(MatchIds(st, q))

Wanted(c, f, p) == (f \/ ~c.fm) /\ (p \/ ~c.pv) /\ c.id # "id" /\ ~c.h
ExpectedCols(st, f, p) == {st.cols[k].id : k \in {k \in 1..Len(st.cols) : Wanted(st.cols[k], f, p)}}

Returned(out) == {out.cols[k].id : k \in 1..Len(out.cols)}

\* the query is one the specification can decide: queried columns exist and hold universe values
Decidable(st, q) ==
  \A e \in 1..Len(q) :
    /\ HasCol(st, q[e].c)
    /\ \A j \in 1..Len(q[e].v) : Known(q[e].v[j])
    /\ \A k \in 1..Len(st.ids) : Known(st.cols[ColIdx(st, q[e].c)].v[k])

RowsOk(st, q, out) == out.rows = ExpectedRows(st, q)

ColsOk(st, f, p, dk, out) ==
  /\ Returned(out) = ExpectedCols(st, f, p)
  /\ Cardinality(Returned(out)) = Len(out.cols)
  /\ \A d \in 1..Len(dk) : (dk[d].id \in Returned(out)) <=> (f \/ ~dk[d].fm)

\* every returned cell is the stored cell of the returned row
ValuesOk(st, out) ==
  \A c \in 1..Len(out.cols) :
    /\ Len(out.cols[c].v) = Len(out.rows)
    /\ HasCol(st, out.cols[c].id)
    /\ \A r \in 1..Len(out.rows) :
         \E k \in 1..Len(st.ids) :
           /\ st.ids[k] = out.rows[r]
           /\ st.cols[ColIdx(st, out.cols[c].id)].v[k] = out.cols[c].v[r]

Clauses(st, q, f, p, dk, out) ==
  IF ~Decidable(st, q) THEN {"C41.undecidable"}
  ELSE (IF RowsOk(st, q, out) THEN {} ELSE {"C41.rows"}) \cup
       (IF ColsOk(st, f, p, dk, out) THEN {} ELSE {"C41.cols"}) \cup
       (IF ValuesOk(st, out) THEN {} ELSE {"C41.values"})

Ok(st, q, f, p, dk, out) == Clauses(st, q, f, p, dk, out) = {}

\* ---------------------------------------------------------------------------------------------
\* Reference solution in a different formulation (used by the design model only): every value is
\* mapped to a canonical key of its Python equality class (what a hash set would use); rows are
\* visited by candidate id in ascending order.
RECURSIVE KeyOf(_)
KeyOf(v) ==
  CASE IsNum(v)   -> [k |-> "num", n |-> v.n, s |-> "", l |-> <<>>]
    [] v.k = "s"  -> [k |-> "str", n |-> 0, s |-> v.s, l |-> <<>>]
    [] v.k = "z"  -> [k |-> "none", n |-> 0, s |-> "", l |-> <<>>]
    [] v.k = "l"  -> [k |-> "list", n |-> Len(v.l), s |-> "", l |-> [j \in 1..Len(v.l) |-> KeyOf(v.l[j])]]

RECURSIVE SameKey(_, _)
SameKey(x, y) ==
  /\ x.k = y.k /\ x.n = y.n /\ x.s = y.s
  /\ Len(x.l) = Len(y.l)
  /\ \A j \in 1..Len(x.l) : SameKey(x.l[j], y.l[j])

RefMatches(st, q, k) ==
  \A e \in 1..Len(q) :
    LET cell == KeyOf(Val(st.cols[ColIdx(st, q[e].c)].v[k]))
    IN \E j \in 1..Len(q[e].v) : SameKey(cell, KeyOf(Val(q[e].v[j])))

MaxId(st) == IF Len(st.ids) = 0 THEN 0
             ELSE LET S == {st.ids[k] : k \in 1..Len(st.ids)} IN CHOOSE x \in S : \A y \in S : y <= x

RECURSIVE RefRowsFrom(_, _, _, _)
RefRowsFrom(st, q, id, acc) ==
  IF id > MaxId(st) THEN acc
  ELSE IF \E k \in 1..Len(st.ids) : st.ids[k] = id /\ RefMatches(st, q, k)
       THEN RefRowsFrom(st, q, id + 1, Append(acc, id))
       ELSE RefRowsFrom(st, q, id + 1, acc)

RefRows(st, q) == RefRowsFrom(st, q, 0, <<>>)

RECURSIVE RefColsFrom(_, _, _, _, _, _)
RefColsFrom(st, f, p, rows, c, acc) ==
  IF c > Len(st.cols) THEN acc
  ELSE LET col == st.cols[c]
           keep == (col.fm => f) /\ (col.pv => p) /\ col.id # "id" /\ ~col.h
           vals == [r \in 1..Len(rows) |->
                      col.v[CHOOSE k \in 1..Len(st.ids) : st.ids[k] = rows[r]]]
       IN RefColsFrom(st, f, p, rows, c + 1,
                      IF keep THEN Append(acc, [id |-> col.id, v |-> vals]) ELSE acc)

Ref(st, q, f, p) ==
  LET rows == RefRows(st, q)
  IN [rows |-> rows, cols |-> RefColsFrom(st, f, p, rows, 1, <<>>)]

=============================================================================
