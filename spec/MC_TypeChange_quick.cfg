INIT Init
NEXT Next
CONSTANTS Fams <- QuickFams
INVARIANT SpecSane
INVARIANT SpecSharp
