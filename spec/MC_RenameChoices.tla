-------------------------- MODULE MC_RenameChoices --------------------------
(* Bounded design model of C39.  One state per input.  An input is                                  *)
(*   [typ, cells, map, flt]                                                                         *)
(*   typ    "Choice" | "ChoiceList": type of the column C whose choices are renamed                  *)
(*   cells  the cells of C, row by row (RenameChoices!Cell); the sibling column O of the same type   *)
(*          gets the same cells                                                                      *)
(*   map    <<[o, n]>> the rename map, in dict insertion order                                       *)
(*   flt    the saved filters of C: <<[sec |-> 1..3 (n-th section of the table), raw, ents]>>        *)
(* Choices are a, b, c; d is a further choice that no map of the full family renames (a new name or  *)
(* an existing one, depending on the cells); x is a choice absent from every cell.                   *)
(* Families (Fams, a sequence) are fully enumerated sub-spaces, see QuickFams / ThoroughFams.        *)
(* SpecSane: the admissible-output relation accepts the reference solution, which is written in a    *)
(* different formulation (sequential application with marks).  SpecSharp: whenever a sequential      *)
(* application WITHOUT marks (cascading: a->b, b->c sends a to c; a swap collapses) gives another    *)
(* result, the relation rejects it with exactly the clauses of the parts that differ.                *)
EXTENDS RenameChoices, TLC, Json, IOUtils, SequencesExt
CONSTANTS Fams

A(s) == Atom("s", s)
N5 == Atom("n", "5")
ZA == Atom("z", "")
CS(s) == Cell("s", s, <<>>)
CZ == Cell("z", "", <<>>)
CN == Cell("n", "5", <<>>)
CL(l) == Cell("l", "", l)
P(o, n) == [o |-> o, n |-> n]

\* --- rename maps -------------------------------------------------------------------------------
Unmapped == "-"
Targets == {Unmapped, "a", "b", "c", "d"}
MapOf(f) == (IF f["a"] # Unmapped THEN <<P("a", f["a"])>> ELSE <<>>) \o
            (IF f["b"] # Unmapped THEN <<P("b", f["b"])>> ELSE <<>>) \o
            (IF f["c"] # Unmapped THEN <<P("c", f["c"])>> ELSE <<>>)
\* all 125 maps over a, b, c: identity, swaps, chains, cycles, merges, new name d, the empty map
MAll == {MapOf(f) : f \in [{"a", "b", "c"} -> Targets]}
MSmall == { <<>>,
            <<P("a", "b"), P("b", "a")>>,                  \* swap
            <<P("a", "b"), P("b", "c")>>,                  \* chain
            <<P("b", "c"), P("a", "b")>>,                  \* the same chain, other dict order
            <<P("a", "b"), P("b", "c"), P("c", "a")>>,     \* cycle
            <<P("a", "c"), P("b", "c")>>,                  \* merge
            <<P("a", "d")>>,                               \* new name
            <<P("a", "a")>>,                               \* identity
            <<P("x", "a")>>,                               \* absent choice
            <<P("a", "b"), P("x", "b")>> }

\* maps that rename the empty name or rename to it ('' is also the default value of a Choice column)
MEmpty == { <<P("", "a")>>, <<P("a", "b"), P("", "d")>>, <<P("a", "")>>, <<P("a", ""), P("", "a")>> }

\* --- cells -------------------------------------------------------------------------------------
\* a, b, c, d, '', None, 5, ['a'] (a list in a Choice column)
CU == {CS("a"), CS("b"), CS("c"), CS("d"), CS(""), CZ, CN, CL(<<A("a")>>)}
CU4 == {CS("a"), CS("b"), CS("d"), CZ}
CU3 == {CS("a"), CS("b"), CZ}
\* [], [a], [b], [a,b], [b,a], [a,a], [a,b,c], [c,d], None, 'a' (alt text), 5, [a, 5] (not all text)
LU == {CL(<<>>), CL(<<A("a")>>), CL(<<A("b")>>), CL(<<A("a"), A("b")>>), CL(<<A("b"), A("a")>>),
       CL(<<A("a"), A("a")>>), CL(<<A("a"), A("b"), A("c")>>), CL(<<A("c"), A("d")>>),
       CZ, CS("a"), CN, CL(<<A("a"), N5>>)}
LU4 == {CL(<<A("a")>>), CL(<<A("a"), A("b")>>), CL(<<A("c"), A("d")>>), CZ}
LU3 == {CL(<<A("a")>>), CL(<<A("a"), A("b")>>), CZ}
Cols(S, lo, hi) == UNION {[1..k -> S] : k \in lo..hi}
FixedC == << CS("a"), CS("b"), CN >>
FixedL == << CL(<<A("a"), A("b")>>), CL(<<A("c")>>), CS("a") >>
EmptyC == { <<>>, << CS(""), CS("a"), CZ >> }
EmptyL == { <<>>, << CL(<<A(""), A("a")>>), CL(<<>>), CZ, CS("") >> }

\* --- filters -----------------------------------------------------------------------------------
Ent(key, vals) == [key |-> key, isl |-> TRUE, vals |-> vals]
Scal(key, a) == [key |-> key, isl |-> FALSE, vals |-> <<a>>]
FLists == { <<>>, <<A("a")>>, <<A("b"), A("a")>>, <<A("a"), A("b"), A("c")>>, <<A("c"), A("d")>>,
            <<A("a"), N5, ZA>>, <<A("a"), A("a")>> }
FSpecs == {[raw |-> "json", ents |-> <<Ent(k, l)>>] : k \in {"included", "excluded"}, l \in FLists}
          \cup {[raw |-> "empty", ents |-> <<>>]}
F(sec, sp) == [sec |-> sec, raw |-> sp.raw, ents |-> sp.ents]
FC0 == {<<>>}
FC1 == {<<F(1, s)>> : s \in FSpecs}
FC2 == {<<F(1, s), F(2, t)>> : s \in FSpecs, t \in FSpecs}
FX == {<< F(1, [raw |-> "json", ents |-> <<Ent("included", <<A("b"), A("a"), A("c")>>)>>]),
          F(2, [raw |-> "json", ents |-> <<Ent("excluded", <<A("a"), N5, ZA>>)>>]) >>}
\* range filters (FilterSpec {min, max} of app/common/FilterState.ts) that a column keeps when its
\* type is changed from Numeric to Choice
FRange == {<< F(1, [raw |-> "json", ents |-> <<Scal("min", Atom("n", "1"))>>]) >>,
           << F(1, [raw |-> "json", ents |-> <<Ent("included", <<A("a")>>)>>]),
              F(2, [raw |-> "json", ents |-> <<Scal("min", Atom("n", "1")), Scal("max", N5)>>]) >>}

Fam(typ, cols, maps, flts) == [typ |-> typ, cols |-> cols, maps |-> maps, flts |-> flts]
QuickFams == <<
  Fam("Choice",     Cols(CU, 0, 1),  MAll,   FX),       \* every cell value x every map
  Fam("ChoiceList", Cols(LU, 0, 1),  MAll,   FX),
  Fam("Choice",     Cols(CU3, 2, 3), MSmall, FC0),      \* several rows (bulk update of a subset)
  Fam("ChoiceList", Cols(LU3, 2, 3), MSmall, FC0),
  Fam("Choice",     {FixedC},        MAll,   FC1),      \* every filter form x every map
  Fam("ChoiceList", {FixedL},        MSmall, FC2),      \* two filters of the column
  Fam("Choice",     {FixedC},        MSmall, FRange),
  Fam("Choice",     EmptyC,          MEmpty, FX),       \* the empty name
  Fam("ChoiceList", EmptyL,          MEmpty, FX) >>
ThoroughFams == <<
  Fam("Choice",     Cols(CU, 0, 2),  MAll,   FX),
  Fam("ChoiceList", Cols(LU, 0, 2),  MAll,   FX),
  Fam("Choice",     Cols(CU4, 3, 3), MAll,   FC0),
  Fam("ChoiceList", Cols(LU4, 3, 3), MAll,   FC0),
  Fam("Choice",     {FixedC},        MAll,   FC0 \cup FC1 \cup FC2),
  Fam("ChoiceList", {FixedL},        MAll,   FC0 \cup FC1 \cup FC2),
  Fam("Choice",     {FixedC},        MSmall, FRange),
  Fam("Choice",     EmptyC,          MEmpty, FX),
  Fam("ChoiceList", EmptyL,          MEmpty, FX) >>

InputsOf(fm) == {[typ |-> fm.typ, cells |-> c, map |-> m, flt |-> f] :
                   c \in fm.cols, m \in fm.maps, f \in fm.flts}

\* TLC's union of large sets of records is quadratic: the input space is never built as one set.
RECURSIVE AllInputsFrom(_)
AllInputsFrom(k) == IF k > Len(Fams) THEN <<>>
                    ELSE SetToSeq(InputsOf(Fams[k])) \o AllInputsFrom(k + 1)

ASSUME "OUT_FILE" \in DOMAIN IOEnv => JsonSerialize(IOEnv.OUT_FILE, AllInputsFrom(1))

\* --- model of the document the worker builds ---------------------------------------------------
CRef == 2
Filt(id, col, sec, raw, ents) ==
  [id |-> id, col |-> col, sec |-> sec, pin |-> 7, raw |-> raw, d |-> 0, ents |-> ents]
Stored(in) ==
  LET n == Len(in.flt)
  IN [rows |-> [k \in 1..Len(in.cells) |-> k], c |-> in.cells, o |-> in.cells,
      filters |-> [i \in 1..n |-> Filt(i, CRef, in.flt[i].sec, in.flt[i].raw, in.flt[i].ents)] \o
                  << Filt(n + 1, 3, 1, "json", <<Ent("included", <<A("a"), A("b"), A("c")>>)>>),
                     Filt(n + 2, 6, 4, "json", <<Ent("excluded", <<A("b"), A("a")>>)>>) >>,
      tabs |-> << [t |-> "rest", d |-> 1] >>]

\* the parts in which two states differ, as the clauses that must reject the difference
Diff(b1, b2) ==
  (IF b1.c # b2.c THEN {"C39.cells"} ELSE {}) \cup (IF b1.filters # b2.filters THEN {"C39.filters"} ELSE {})

ASSUME \A m \in MAll \cup MSmall \cup MEmpty : WellFormedMap(m)

VARIABLE input
Init == \E k \in 1..Len(Fams) : input \in InputsOf(Fams[k])
Next == UNCHANGED input
SpecSane ==
  LET b == Stored(input) IN Ok(input.typ, input.map, CRef, b, Ref(input.typ, input.map, CRef, b))
\* no duplicate is created by a map that is injective on the names present, so the relation is then
\* a function and must reject every other result; in general it must reject the cascading result
\* in exactly the parts where that differs from the reference
SpecSharp ==
  LET b == Stored(input)
      r == Ref(input.typ, input.map, CRef, b)
      w == Cascade(input.typ, input.map, CRef, b)
  IN Diff(r, w) \subseteq Clauses(input.typ, input.map, CRef, b, w)
=============================================================================
