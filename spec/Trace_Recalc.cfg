INIT TInit
NEXT TNext
CHECK_DEADLOCK FALSE
CONSTANTS ColSeq <- TraceCols
          Rows <- TraceRows
          AllowCross = TRUE
