------------------------------- MODULE RowIds -------------------------------
(***************************************************************************)
(* C27 - row id allocation never collides or creates ghost rows            *)
(* (sandbox/grist/useractions.py AddRecord / BulkAddRecord /               *)
(*  ReplaceTableData -> doBulkAddOrReplace, docactions.py, table.py).      *)
(*                                                                         *)
(* A state machine over ONE table.  The state is the set `rows` of row ids *)
(* that exist.  The only action is                                         *)
(*                                                                         *)
(*     Add(kind, req)  with outcome o:   rows' = o.after                   *)
(*                                                                         *)
(* kind \in Kinds; req is the sequence of requested ids, each either None  *)
(* ([k |-> "N", v |-> 0]) or an integer ([k |-> "I", v |-> n]): n < 0 is a *)
(* placeholder (automatic, like None), n >= 0 is an explicit id.           *)
(* An outcome o is what one can observe of the step:                       *)
(*   rej     the action was rejected (it raised)                           *)
(*   same    the whole document is the same as before                      *)
(*   hasids  ids were returned;   ids  the returned ids                    *)
(*   after   the set of row ids that exist afterwards (fetch_table)        *)
(*   view    the engine's own row id set afterwards (Table.row_ids)        *)
(*   held    per position of the request: the row that now holds that      *)
(*           record's values (-1: no row does)                             *)
(*                                                                         *)
(* Step(rows, kind, req, o) is the admissible-outcome RELATION of the      *)
(* property: Clauses(...) names the clauses an outcome fails.  The relation*)
(* leaves open WHICH automatic ids are chosen (any distinct ids greater    *)
(* than every existing id), and whether a request is rejected or served    *)
(* where the property does not say (see MayReject).  AllocIds is the       *)
(* reference allocation (the one doBulkAddOrReplace intends); it is one    *)
(* admissible outcome, which MC_RowIds checks for every input in its bound.*)
(***************************************************************************)
EXTENDS Integers, Sequences, FiniteSets

MaxRowId == 1000000
Kinds    == {"AddRecord", "BulkAddRecord", "ReplaceTableData"}

None   == [k |-> "N", v |-> 0]
Id(n)  == [k |-> "I", v |-> n]

IsAuto(r)     == r.k = "N" \/ r.v < 0        \* None or a negative placeholder
IsExplicit(r) == r.k = "I" /\ r.v >= 0

Max2(a, b)  == IF a >= b THEN a ELSE b
SetMax(S)   == IF S = {} THEN 0 ELSE CHOOSE m \in S : \A x \in S : x <= m
Range(s)    == {s[i] : i \in 1..Len(s)}
Distinct(s) == \A i, j \in 1..Len(s) : i # j => s[i] # s[j]

Expl(req) == {i \in 1..Len(req) : IsExplicit(req[i])}
Auto(req) == {i \in 1..Len(req) : IsAuto(req[i])}

\* ReplaceTableData discards the rows that exist: nothing to collide with, ids start at 1
Base(rows, kind) == IF kind = "ReplaceTableData" THEN {} ELSE rows

(***************************************************************************)
(* Requests that cannot create exactly the requested distinct rows         *)
(***************************************************************************)
BadZero(req)         == \E i \in Expl(req) : req[i].v = 0
BadHigh(req)         == \E i \in Expl(req) : req[i].v > MaxRowId
BadExists(base, req) == \E i \in Expl(req) : req[i].v \in base
BadRepeat(req)       == \E i, j \in Expl(req) : i < j /\ req[i].v = req[j].v

MustReject(base, req) == BadZero(req) \/ BadHigh(req) \/ BadExists(base, req) \/ BadRepeat(req)

(***************************************************************************)
(* Reference allocation: an automatic id is the next id greater than every *)
(* existing id and every id earlier in the request.                        *)
(***************************************************************************)
RECURSIVE Fill(_, _, _)
Fill(req, next, acc) ==
  IF Len(acc) = Len(req) THEN acc
  ELSE LET r  == req[Len(acc) + 1]
           id == IF IsAuto(r) THEN next ELSE r.v
       IN Fill(req, Max2(next, id) + 1, Append(acc, id))

RefIds(base, req) == Fill(req, SetMax(base) + 1, <<>>)

\* an automatic id of the reference allocation meets an explicit id of the request
RefClash(base, req) == ~Distinct(RefIds(base, req))

AllocIds(existing, requested, replace) ==
  LET base == IF replace THEN {} ELSE existing
  IN IF MustReject(base, requested) \/ RefClash(base, requested)
     THEN [rej |-> TRUE,  ids |-> <<>>]
     ELSE [rej |-> FALSE, ids |-> RefIds(base, requested)]

(***************************************************************************)
(* Where the property leaves it open whether the request is served:        *)
(*  - the reference allocation would clash with a later explicit id (an    *)
(*    implementation may reject, or pick other automatic ids);             *)
(*  - serving it needs an automatic id over MaxRowId;                      *)
(*  - the same negative placeholder is used twice.                         *)
(* Every other request that is not MustReject has to be served.            *)
(***************************************************************************)
RepeatedPlaceholder(req) ==
  \E i, j \in Auto(req) : i < j /\ req[i].k = "I" /\ req[j].k = "I" /\ req[i].v = req[j].v
MayReject(base, req) ==
  \/ RefClash(base, req)
  \/ \E i \in 1..Len(req) : RefIds(base, req)[i] > MaxRowId
  \/ RepeatedPlaceholder(req)
MustAccept(base, req) == ~MustReject(base, req) /\ ~MayReject(base, req)

(***************************************************************************)
(* The relation.                                                           *)
(***************************************************************************)
Mark(cond, name) == IF cond THEN {} ELSE {name}

Served(rows, kind, req, o) ==
  LET base == Base(rows, kind)
      \* ReplaceTableData returns nothing: it is judged on the resulting rows
      ids  == IF kind = "ReplaceTableData" THEN o.held ELSE o.ids
  IN Mark(kind = "ReplaceTableData" \/ o.hasids, "C27.ret") \cup
     (IF Len(ids) # Len(req) THEN {"C27.shape"}
      ELSE
       \* an explicit id is the id of the row created for it
       Mark(\A i \in Expl(req) : ids[i] = req[i].v, "C27.explicit") \cup
       \* automatic ids (None, negative placeholders) are greater than every existing id
       Mark(\A i \in Auto(req) : ids[i] > SetMax(base), "C27.auto") \cup
       Mark(Distinct(ids), "C27.distinct") \cup
       Mark(Range(ids) \cap base = {}, "C27.collide") \cup
       \* the returned ids are exactly the rows that now exist (beyond those that existed)
       Mark(o.after = base \cup Range(ids), "C27.exact") \cup
       \* ... and each of them is the row of the record it was returned for
       Mark(o.held = ids, "C27.bind"))

Clauses(rows, kind, req, o) ==
  LET base == Base(rows, kind)
  IN Mark(o.view = o.after, "C27.view") \cup
     (IF o.rej
      THEN Mark(o.same /\ o.after = rows, "C27.unchanged") \cup
           Mark(~MustAccept(base, req), "C27.accept")
      ELSE IF MustReject(base, req) THEN {"C27.reject"}
      ELSE Served(rows, kind, req, o))

Ok(rows, kind, req, o) == Clauses(rows, kind, req, o) = {}

\* the transition relation of the state machine
Step(rows, kind, req, o, rows2) == Ok(rows, kind, req, o) /\ rows2 = o.after

(***************************************************************************)
(* The outcome of the reference allocation, as an observation              *)
(***************************************************************************)
RefOutcome(rows, kind, req) ==
  LET a    == AllocIds(rows, req, kind = "ReplaceTableData")
      base == Base(rows, kind)
  IN IF a.rej
     THEN [rej |-> TRUE, same |-> TRUE, hasids |-> FALSE, ids |-> <<>>, after |-> rows,
           view |-> rows, held |-> [i \in 1..Len(req) |-> -1]]
     ELSE [rej |-> FALSE, same |-> (Len(req) = 0 /\ base = rows),
           hasids |-> (kind # "ReplaceTableData"),
           ids |-> IF kind = "ReplaceTableData" THEN <<>> ELSE a.ids,
           after |-> base \cup Range(a.ids), view |-> base \cup Range(a.ids), held |-> a.ids]

=============================================================================
