INIT Init
NEXT Next
CONSTANTS MaxWide = 4
          MaxNarrow = 5
          Lanes = 64
INVARIANT SpecSane
CHECK_DEADLOCK FALSE
