INIT TInit
NEXT TNext
VIEW View
CONSTANTS MarshalTotal = TRUE
          Revert = FALSE
CHECK_DEADLOCK FALSE
