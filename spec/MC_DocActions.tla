---------------------------- MODULE MC_DocActions ----------------------------
(***************************************************************************)
(* Bounded design model of the doc-action algebra (DocActions.tla):        *)
(* every small document x every well-formed action.  Lemmas the rest of    *)
(* the suite relies on (C01, C02, C03):                                    *)
(*  - Apply preserves the shape of documents;                              *)
(*  - every well-formed action has an inverse list Inv(doc, a) - the one   *)
(*    docactions.py records as undo, transcribed here - with               *)
(*    ApplyAll(Apply(doc, a), Inv(doc, a)) = doc;                          *)
(*  - inverses compose in reverse order (checked over two-action bundles). *)
(***************************************************************************)
EXTENDS DocActions, TLC

Tabs == {"T", "U"}
ColIds == {"A", "B"}
RowIds == 1..2
Vals == {"#0", "#1"}
Base == "Int"

TableShapes ==
  UNION {UNION {{[rows |-> rs, cols |-> [c \in cs |-> f[c]], base |-> [c \in cs |-> Base]]
                   : f \in [ColIds -> [rs -> Vals]]}
                : cs \in SUBSET ColIds}
         : rs \in SUBSET RowIds}

\* documents: empty, or the one table "T" (the second id "U" only serves AddTable / RenameTable)
Docs == UNION {[ts -> TableShapes] : ts \in SUBSET {"T"}}

Rec(n, t, r, c, id, id2, base, cols) ==
  [n |-> n, t |-> t, r |-> r, c |-> c, id |-> id, id2 |-> id2, base |-> base, cols |-> cols]

RowSeqs == {<<>>, <<1>>, <<2>>, <<1, 2>>, <<2, 1>>}
ValSeqs(n) == [1..n -> Vals]
ColVals(n) == UNION {[cs -> ValSeqs(n)] : cs \in SUBSET ColIds}

Actions ==
  {Rec("BulkAddRecord", t, r, c, "", "", "", <<>>) : t \in Tabs, r \in RowSeqs, c \in UNION {ColVals(Len(q)) : q \in RowSeqs}}
  \cup {Rec("BulkUpdateRecord", t, r, c, "", "", "", <<>>) : t \in Tabs, r \in RowSeqs, c \in UNION {ColVals(Len(q)) : q \in RowSeqs}}
  \cup {Rec("BulkRemoveRecord", t, r, <<>>, "", "", "", <<>>) : t \in Tabs, r \in RowSeqs}
  \cup {Rec("AddColumn", t, <<>>, <<>>, c, "", Base, <<>>) : t \in Tabs, c \in ColIds}
  \cup {Rec("RemoveColumn", t, <<>>, <<>>, c, "", "", <<>>) : t \in Tabs, c \in ColIds}
  \cup {Rec("RenameColumn", t, <<>>, <<>>, c, d, "", <<>>) : t \in Tabs, c \in ColIds, d \in ColIds}
  \cup {Rec("AddTable", t, <<>>, <<>>, "", "", "", cs) : t \in Tabs,
          cs \in {<<>>, <<[id |-> "A", base |-> Base]>>, <<[id |-> "A", base |-> Base], [id |-> "B", base |-> Base]>>}}
  \cup {Rec("RemoveTable", t, <<>>, <<>>, "", "", "", <<>>) : t \in Tabs}
  \cup {Rec("RenameTable", t, <<>>, <<>>, "", u, "", <<>>) : t \in Tabs, u \in Tabs}

\* record actions must carry one value per row
Sane(a) == a.n \in {"BulkAddRecord", "BulkUpdateRecord"} => \A c \in DOMAIN a.c : Len(a.c[c]) = Len(a.r)

(***************************************************************************)
(* The undo list docactions.py records for an action (in application order *)
(* of the undo, i.e. already reversed).                                    *)
(***************************************************************************)
SeqOfSet(S) == CHOOSE s \in [1..Cardinality(S) -> S] : \A i, j \in 1..Cardinality(S) : i # j => s[i] # s[j]

Inv(doc, a) ==
  CASE a.n = "BulkAddRecord" -> <<Rec("BulkRemoveRecord", a.t, a.r, <<>>, "", "", "", <<>>)>>
    [] a.n = "BulkRemoveRecord" ->
         LET rs == SeqOfSet(SeqRange(a.r) \cap doc[a.t].rows)
         IN <<Rec("BulkAddRecord", a.t, rs,
                  [c \in DOMAIN doc[a.t].cols |-> [i \in 1..Len(rs) |-> doc[a.t].cols[c][rs[i]]]],
                  "", "", "", <<>>)>>
    [] a.n = "BulkUpdateRecord" ->
         <<Rec("BulkUpdateRecord", a.t, a.r,
               [c \in DOMAIN a.c |-> [i \in 1..Len(a.r) |-> doc[a.t].cols[c][a.r[i]]]], "", "", "", <<>>)>>
    [] a.n = "AddColumn" -> <<Rec("RemoveColumn", a.t, <<>>, <<>>, a.id, "", "", <<>>)>>
    [] a.n = "RemoveColumn" ->
         LET rs == SeqOfSet(doc[a.t].rows)
         IN <<Rec("AddColumn", a.t, <<>>, <<>>, a.id, "", doc[a.t].base[a.id], <<>>),
              Rec("BulkUpdateRecord", a.t, rs,
                  [c \in {a.id} |-> [i \in 1..Len(rs) |-> doc[a.t].cols[a.id][rs[i]]]], "", "", "", <<>>)>>
    [] a.n = "RenameColumn" -> <<Rec("RenameColumn", a.t, <<>>, <<>>, a.id2, a.id, "", <<>>)>>
    [] a.n = "AddTable" -> <<Rec("RemoveTable", a.t, <<>>, <<>>, "", "", "", <<>>)>>
    [] a.n = "RemoveTable" ->
         LET rs == SeqOfSet(doc[a.t].rows)
             cs == SeqOfSet(DOMAIN doc[a.t].cols)
         IN <<Rec("AddTable", a.t, <<>>, <<>>, "", "", "",
                  [i \in 1..Len(cs) |-> [id |-> cs[i], base |-> doc[a.t].base[cs[i]]]]),
              Rec("BulkAddRecord", a.t, rs,
                  [c \in DOMAIN doc[a.t].cols |-> [i \in 1..Len(rs) |-> doc[a.t].cols[c][rs[i]]]],
                  "", "", "", <<>>)>>
    [] a.n = "RenameTable" -> <<Rec("RenameTable", a.id2, <<>>, <<>>, "", a.t, "", <<>>)>>

VARIABLES doc, a1, a2
Init == doc \in Docs /\ a1 \in {a \in Actions : Sane(a)} /\ a2 = a1 /\ WellFormed(doc, a1)
\* second step: another well-formed action on the result (two-action bundles)
Next == /\ a2 = a1
        /\ \E b \in {x \in Actions : Sane(x)} :
             /\ WellFormed(Apply(doc, a1), b)
             /\ b # a1
             /\ a2' = b
        /\ UNCHANGED <<doc, a1>>

Stutter == UNCHANGED <<doc, a1, a2>>

ShapeOK(d) == \A t \in DOMAIN d : /\ DOMAIN d[t].cols = DOMAIN d[t].base
                                  /\ \A c \in DOMAIN d[t].cols : DOMAIN d[t].cols[c] = d[t].rows

InverseLemma == ApplyAll(Apply(doc, a1), Inv(doc, a1)) = doc
ShapeLemma == ShapeOK(Apply(doc, a1))
UndoWellFormed == IllFormed(Apply(doc, a1), Inv(doc, a1)) = {}
ComposeLemma ==
  a2 # a1 =>
    LET d1 == Apply(doc, a1)
        d2 == Apply(d1, a2)
    IN ApplyAll(d2, Inv(d1, a2) \o Inv(doc, a1)) = doc
=============================================================================
