INIT Init
NEXT Next
CONSTANTS MaxWide = 3
          MaxNarrow = 4
          Lanes = 16
          Full = FALSE
INVARIANT SpecSane
CHECK_DEADLOCK FALSE
