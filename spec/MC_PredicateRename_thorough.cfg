INIT Init
NEXT Next
CONSTANTS MaxWide = 3
          MaxNarrow = 4
          Lanes = 16
INVARIANT SpecSane
CHECK_DEADLOCK FALSE
