INIT Init
NEXT Next
CONSTANTS MaxN = 3
          MaxSlots = 3
          Counts = {0, 1, 2, 4}
          NAnchors = 3
          Depth = 2
INVARIANT SpecSane
