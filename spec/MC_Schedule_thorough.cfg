INIT Init
NEXT Next
CONSTANTS MaxN = 3
          MaxSlots = 3
          Counts = {0, 4}
          NAnchors = 2
          Depth = 2
INVARIANT SpecSane
