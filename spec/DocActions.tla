--------------------------- MODULE DocActions ---------------------------
(***************************************************************************)
(* The document and the doc-action algebra of the Grist data engine.       *)
(*                                                                         *)
(* A document is a function from table ids to tables; a table is           *)
(*   [rows : finite set of row ids,                                        *)
(*    cols : [colId -> [rows -> token]],                                   *)
(*    base : [colId -> base type name]]                                    *)
(* Cell values are opaque string tokens (see harness/tokens.py).           *)
(*                                                                         *)
(* Apply(doc, a) is the meaning of the 11 (bulk-normalised) doc actions    *)
(* exactly as an *independent* consumer interprets them: Node's            *)
(* DocStorage/TableData, and sandbox/grist/table_data_set.py, of which     *)
(* this is a transcription.  It is deliberately "dumb": it knows nothing   *)
(* about formulas, metadata or references.                                 *)
(*                                                                         *)
(* Action records are uniform:                                             *)
(*  [n, t, r, c, id, id2, base, cols]                                      *)
(*   n    action name                                                      *)
(*   t    table id                                                         *)
(*   r    sequence of row ids          (record actions)                    *)
(*   c    [colId |-> sequence of tokens parallel to r]  (record actions)   *)
(*   id   column id  (column actions)                                      *)
(*   id2  new column id (RenameColumn) / new table id (RenameTable)        *)
(*   base base type of the column (AddColumn; ModifyColumn: "" = same)     *)
(*   cols sequence of [id, base]  (AddTable)                               *)
(***************************************************************************)
EXTENDS Naturals, Integers, Sequences, FiniteSets

\* Default cell token for a base type (usertypes._type_defaults / gristTypes.ts).
Default(base) ==
  CASE base = "Text"           -> "s"
    [] base = "Choice"         -> "s"
    [] base = "Int"            -> "#0"
    [] base = "Numeric"        -> "#0"
    [] base = "Id"             -> "#0"
    [] base = "Ref"            -> "#0"
    [] base = "Bool"           -> "b0"
    [] base = "ManualSortPos"  -> "#inf"
    [] base = "PositionNumber" -> "#inf"
    [] OTHER                   -> "n"

RecordActions == {"BulkAddRecord", "BulkUpdateRecord", "BulkRemoveRecord", "ReplaceTableData"}
ColumnActions == {"AddColumn", "RemoveColumn", "RenameColumn", "ModifyColumn"}
TableActions  == {"AddTable", "RemoveTable", "RenameTable"}
SchemaActions == ColumnActions \cup TableActions

EmptyDoc == [t \in {} |-> 0]

SeqRange(s) == {s[i] : i \in 1..Len(s)}
IdxOf(s, x) == CHOOSE i \in 1..Len(s) : s[i] = x
NoDups(s)   == \A i, j \in 1..Len(s) : i # j => s[i] # s[j]

\* f with key k mapped to v (k may be new)
Put(f, k, v) == [x \in (DOMAIN f) \cup {k} |-> IF x = k THEN v ELSE f[x]]
Drop(f, k)   == [x \in (DOMAIN f) \ {k} |-> f[x]]

(***************************************************************************)
(* Well-formedness of an action at its position: what a consumer that      *)
(* applies it to SQLite needs in order not to fail or silently diverge.    *)
(***************************************************************************)
WellFormed(doc, a) ==
  CASE a.n = "BulkAddRecord" ->
         /\ a.t \in DOMAIN doc
         /\ NoDups(a.r)
         /\ \A i \in 1..Len(a.r) : a.r[i] \in Nat \ {0} /\ a.r[i] \notin doc[a.t].rows
         /\ \A c \in DOMAIN a.c : c \in DOMAIN doc[a.t].cols /\ Len(a.c[c]) = Len(a.r)
    [] a.n = "ReplaceTableData" ->
         /\ a.t \in DOMAIN doc
         /\ NoDups(a.r)
         /\ \A i \in 1..Len(a.r) : a.r[i] \in Nat \ {0}
         /\ \A c \in DOMAIN a.c : c \in DOMAIN doc[a.t].cols /\ Len(a.c[c]) = Len(a.r)
    [] a.n = "BulkUpdateRecord" ->
         \* a repeated row id is applicable (sequential writers leave the last value)
         /\ a.t \in DOMAIN doc
         /\ \A i \in 1..Len(a.r) : a.r[i] \in doc[a.t].rows
         /\ \A c \in DOMAIN a.c : c \in DOMAIN doc[a.t].cols /\ Len(a.c[c]) = Len(a.r)
    [] a.n = "BulkRemoveRecord" ->
         /\ a.t \in DOMAIN doc
    [] a.n = "AddColumn"    -> a.t \in DOMAIN doc /\ a.id \notin DOMAIN doc[a.t].cols
    [] a.n = "RemoveColumn" -> a.t \in DOMAIN doc /\ a.id \in DOMAIN doc[a.t].cols
    [] a.n = "ModifyColumn" -> a.t \in DOMAIN doc /\ a.id \in DOMAIN doc[a.t].cols
    [] a.n = "RenameColumn" -> /\ a.t \in DOMAIN doc
                               /\ a.id \in DOMAIN doc[a.t].cols
                               /\ a.id2 \notin DOMAIN doc[a.t].cols
    [] a.n = "AddTable"     -> a.t \notin DOMAIN doc /\ NoDups([i \in 1..Len(a.cols) |-> a.cols[i].id])
    [] a.n = "RemoveTable"  -> a.t \in DOMAIN doc
    [] a.n = "RenameTable"  -> a.t \in DOMAIN doc /\ a.id2 \notin DOMAIN doc
    [] OTHER -> FALSE

(***************************************************************************)
(* Meaning of each action (total: ill-formed pieces are skipped the way    *)
(* table_data_set.py skips them, so that evaluation never gets stuck; the  *)
(* WellFormed clause reports them separately).                             *)
(***************************************************************************)
AddRows(tbl, r, c) ==
  LET new == SeqRange(r) \ tbl.rows
      \* last occurrence wins for a repeated id (what a sequential writer would leave behind)
      Last(x) == CHOOSE i \in 1..Len(r) : r[i] = x /\ \A j \in (i+1)..Len(r) : r[j] # x
      rows2 == tbl.rows \cup new
  IN [tbl EXCEPT
        !.rows = rows2,
        !.cols = [cid \in DOMAIN tbl.cols |->
                    [x \in rows2 |->
                       IF x \in new
                       THEN IF cid \in DOMAIN c /\ Last(x) <= Len(c[cid])
                            THEN c[cid][Last(x)] ELSE Default(tbl.base[cid])
                       ELSE tbl.cols[cid][x]]]]

ClearRows(tbl) ==
  [tbl EXCEPT !.rows = {}, !.cols = [cid \in DOMAIN tbl.cols |-> [x \in {} |-> "n"]]]

UpdateRows(tbl, r, c) ==
  LET upd == SeqRange(r) \cap tbl.rows
      Last(x) == CHOOSE i \in 1..Len(r) : r[i] = x /\ \A j \in (i+1)..Len(r) : r[j] # x
  IN [tbl EXCEPT
        !.cols = [cid \in DOMAIN tbl.cols |->
                    IF cid \in DOMAIN c
                    THEN [x \in tbl.rows |->
                            IF x \in upd /\ Last(x) <= Len(c[cid]) THEN c[cid][Last(x)]
                            ELSE tbl.cols[cid][x]]
                    ELSE tbl.cols[cid]]]

RemoveRows(tbl, r) ==
  LET rows2 == tbl.rows \ SeqRange(r)
  IN [tbl EXCEPT
        !.rows = rows2,
        !.cols = [cid \in DOMAIN tbl.cols |-> [x \in rows2 |-> tbl.cols[cid][x]]]]

NewTable(cols) ==
  LET ids == {cols[i].id : i \in 1..Len(cols)}
      BaseOf(cid) == cols[CHOOSE i \in 1..Len(cols) : cols[i].id = cid].base
  IN [rows |-> {},
      cols |-> [cid \in ids |-> [x \in {} |-> "n"]],
      base |-> [cid \in ids |-> BaseOf(cid)]]

Apply(doc, a) ==
  IF a.n \in RecordActions \cup ColumnActions \cup {"RemoveTable", "RenameTable"}
     /\ a.t \notin DOMAIN doc
  THEN doc
  ELSE
  CASE a.n = "BulkAddRecord"    -> [doc EXCEPT ![a.t] = AddRows(@, a.r, a.c)]
    [] a.n = "ReplaceTableData" -> [doc EXCEPT ![a.t] = AddRows(ClearRows(@), a.r, a.c)]
    [] a.n = "BulkUpdateRecord" -> [doc EXCEPT ![a.t] = UpdateRows(@, a.r, a.c)]
    [] a.n = "BulkRemoveRecord" -> [doc EXCEPT ![a.t] = RemoveRows(@, a.r)]
    [] a.n = "AddColumn" ->
         [doc EXCEPT ![a.t] =
            [@ EXCEPT !.cols = Put(@, a.id, [x \in doc[a.t].rows |-> Default(a.base)]),
                      !.base = Put(@, a.id, a.base)]]
    [] a.n = "RemoveColumn" ->
         [doc EXCEPT ![a.t] = [@ EXCEPT !.cols = Drop(@, a.id), !.base = Drop(@, a.id)]]
    [] a.n = "RenameColumn" ->
         IF a.id \notin DOMAIN doc[a.t].cols THEN doc ELSE
         [doc EXCEPT ![a.t] =
            [@ EXCEPT !.cols = Put(Drop(@, a.id), a.id2, doc[a.t].cols[a.id]),
                      !.base = Put(Drop(@, a.id), a.id2, doc[a.t].base[a.id])]]
    [] a.n = "ModifyColumn" ->
         IF a.id \notin DOMAIN doc[a.t].cols \/ a.base = "" THEN doc ELSE
         [doc EXCEPT ![a.t] = [@ EXCEPT !.base = Put(@, a.id, a.base)]]
    [] a.n = "AddTable"    -> Put(doc, a.t, NewTable(a.cols))
    [] a.n = "RemoveTable" -> Drop(doc, a.t)
    [] a.n = "RenameTable" -> Put(Drop(doc, a.t), a.id2, doc[a.t])
    [] OTHER -> doc

RECURSIVE ApplyAllFrom(_, _, _)
ApplyAllFrom(doc, as, i) ==
  IF i > Len(as) THEN doc ELSE ApplyAllFrom(Apply(doc, as[i]), as, i + 1)
ApplyAll(doc, as) == ApplyAllFrom(doc, as, 1)

\* Indices of the actions of `as` that are ill-formed at their position.
RECURSIVE IllFormedFrom(_, _, _)
IllFormedFrom(doc, as, i) ==
  IF i > Len(as) THEN {}
  ELSE (IF WellFormed(doc, as[i]) THEN {} ELSE {i}) \cup IllFormedFrom(Apply(doc, as[i]), as, i + 1)
IllFormed(doc, as) == IllFormedFrom(doc, as, 1)

(***************************************************************************)
(* Observed tables come from the engine as parallel sequences              *)
(*   [rows : ascending sequence of ids, cols : [colId -> sequence]]        *)
(* SameTable compares a model table with an observed one, cell by cell.    *)
(***************************************************************************)
SameTable(m, o) ==
  /\ Len(o.rows) = Cardinality(m.rows)
  /\ DOMAIN o.cols = DOMAIN m.cols
  /\ \A i \in 1..Len(o.rows) :
       /\ o.rows[i] \in m.rows
       /\ \A cid \in DOMAIN o.cols : m.cols[cid][o.rows[i]] = o.cols[cid][i]

\* Tables of the model document that differ from the observed document (either direction).
DiffTables(mdoc, odoc) ==
  {t \in (DOMAIN mdoc) \cup (DOMAIN odoc) :
     \/ t \notin DOMAIN mdoc
     \/ t \notin DOMAIN odoc
     \/ ~SameTable(mdoc[t], odoc[t])}

\* Lift an observed table into model form, given the base types.
FromObsTable(o, base) ==
  LET rows == SeqRange(o.rows)
  IN [rows |-> rows,
      cols |-> [cid \in DOMAIN o.cols |-> [x \in rows |-> o.cols[cid][IdxOf(o.rows, x)]]],
      base |-> base]

=============================================================================
