--------------------------- MODULE PredicateRename ---------------------------
(***************************************************************************)
(* C17 - column renames inside access rules and conditions are exact.       *)
(*                                                                         *)
(* Builds on Predicate (C40): a predicate formula is its parse tree          *)
(*   <<"Attr", <<"Name","rec">>, "X">>, <<"Eq", l, r>>, <<"Comment", t, c>> *)
(* exactly as predicate_formula.parse_predicate_formula returns it.          *)
(*                                                                         *)
(* Which Attr nodes are REFERENCES TO A COLUMN depends on where the formula  *)
(* lives (the context):                                                      *)
(*   kind "acl"   an ACL rule of a resource on table `self`:                 *)
(*                rec.C, newRec.C -> self.C ;  user.A.C -> (lookup table of   *)
(*                the user attribute A).C                                    *)
(*   kind "dc"    the dropdown condition of a column of table `self` whose   *)
(*                type is Ref/RefList of table `choice` ("" = not a ref):    *)
(*                rec.C -> self.C ;  choice.C -> choice.C                     *)
(*   kind "trig" / "trigc"  a trigger condition (text form / customExpression *)
(*                of the config form) of a trigger on table `self`:          *)
(*                rec.C, oldRec.C -> self.C                                   *)
(* ($C is rec.C already in the parse tree.)  Nothing else is a reference:     *)
(* string constants, comments, attributes of other names, rec.C.D's outer     *)
(* attribute, user.C, keyword names.                                         *)
(*                                                                         *)
(* A rename step is [t, old, new] (column t.old becomes t.new); steps apply   *)
(* in order.  RenameTree is the tree with exactly the references renamed.     *)
(* The same notion is applied to the token sequence of a text (every          *)
(* attribute-name token carries the chain of names it hangs on), which gives  *)
(* the exact text after the rename.                                          *)
(***************************************************************************)
EXTENDS Predicate

RecNames(kind) ==
  CASE kind = "acl" -> {"rec", "newRec"}
    [] kind = "dc" -> {"rec"}
    [] kind \in {"trig", "trigc"} -> {"rec", "oldRec"}
    [] OTHER -> {}

\* the chain of names an Attr node hangs on: <<base, attr>> for NAME.attr, <<"user", A, attr>> for
\* user.A.attr, <<>> for anything else
Chain(node) ==
  LET base == node[2] IN
  IF base[1] = "Name" THEN <<base[2], node[3]>>
  ELSE IF base[1] = "Attr" /\ base[2][1] = "Name" /\ base[2][2] = "user" THEN <<"user", base[3], node[3]>>
  ELSE <<>>

\* user attributes of the document: a sequence of [name, tableId, ...]; a later rule of the same name wins
HasAttr(attrs, a) == \E i \in 1..Len(attrs) : attrs[i].name = a
AttrTable(attrs, a) ==
  attrs[CHOOSE i \in 1..Len(attrs) : attrs[i].name = a /\ \A j \in (i + 1)..Len(attrs) : attrs[j].name # a].tableId

\* the column <<table, colId>> a chain refers to in a context; <<>> = not a column reference
Target(ctx, ch) ==
  IF Len(ch) = 2 /\ ch[1] \in RecNames(ctx.kind) THEN <<ctx.self, ch[2]>>
  ELSE IF Len(ch) = 2 /\ ch[1] = "choice" /\ ctx.kind = "dc" /\ ctx.choice # "" THEN <<ctx.choice, ch[2]>>
  ELSE IF Len(ch) = 3 /\ ctx.kind = "acl" /\ HasAttr(ctx.attrs, ch[2]) THEN <<AttrTable(ctx.attrs, ch[2]), ch[3]>>
  ELSE <<>>

Hit(ctx, ch, s) == Target(ctx, ch) = <<s.t, s.old>>

RECURSIVE RenameTree(_, _, _)
RenameTree(t, ctx, s) ==
  LET k == t[1] IN
  CASE k \in {"Const", "Name", "NoTree", "Malformed"} -> t
    [] k = "Attr" -> <<"Attr", RenameTree(t[2], ctx, s), IF Hit(ctx, Chain(t), s) THEN s.new ELSE t[3]>>
    [] k = "Comment" -> <<"Comment", RenameTree(t[2], ctx, s), t[3]>>
    [] k = "keywords" -> <<"keywords">> \o [i \in 1..(Len(t) - 1) |-> <<t[i + 1][1], RenameTree(t[i + 1][2], ctx, s)>>]
    [] OTHER -> <<k>> \o [i \in 1..(Len(t) - 1) |-> RenameTree(t[i + 1], ctx, s)]

RECURSIVE RenameSteps(_, _, _, _)
RenameSteps(t, ctx, steps, i) ==
  IF i > Len(steps) THEN t ELSE RenameSteps(RenameTree(t, ctx, steps[i]), ctx, steps, i + 1)
Renamed(t, ctx, steps) == RenameSteps(t, ctx, steps, 1)

\* number of Attr nodes one step renames
RECURSIVE Hits(_, _, _), HitsFrom(_, _, _, _, _)
HitsFrom(t, i, kw, ctx, s) ==
  IF i > Len(t) THEN 0 ELSE Hits(IF kw THEN t[i][2] ELSE t[i], ctx, s) + HitsFrom(t, i + 1, kw, ctx, s)
Hits(t, ctx, s) ==
  LET k == t[1] IN
  CASE k \in {"Const", "Name", "NoTree", "Malformed"} -> 0
    [] k = "Attr" -> Hits(t[2], ctx, s) + (IF Hit(ctx, Chain(t), s) THEN 1 ELSE 0)
    [] k = "Comment" -> Hits(t[2], ctx, s)
    [] OTHER -> HitsFrom(t, 2, k = "keywords", ctx, s)

\* ---- token sequences ------------------------------------------------------------------------------
\* a token = [cp : its characters (code points), ref : the chain the attribute-name token hangs on, or <<>>]
RenTok(tok, ctx, s) ==
  IF Hit(ctx, tok.ref, s) THEN [cp |-> s.newcp, ref |-> [tok.ref EXCEPT ![Len(tok.ref)] = s.new]] ELSE tok
RECURSIVE RenToks(_, _, _, _)
RenToks(toks, ctx, steps, i) ==
  IF i > Len(steps) THEN toks
  ELSE RenToks([k \in 1..Len(toks) |-> RenTok(toks[k], ctx, steps[i])], ctx, steps, i + 1)
RECURSIVE Concat(_, _)
Concat(toks, i) == IF i > Len(toks) THEN <<>> ELSE toks[i].cp \o Concat(toks, i + 1)
ExpectedCps(toks, ctx, steps) == Concat(RenToks(toks, ctx, steps, 1), 1)
TokHits(toks, ctx, s) == Cardinality({k \in 1..Len(toks) : Hit(ctx, toks[k].ref, s)})

\* the annotations of a token sequence and a tree agree on how many references each step renames
RECURSIVE CountsAgree(_, _, _, _, _)
CountsAgree(tree, toks, ctx, steps, i) ==
  \/ i > Len(steps)
  \/ /\ TokHits(toks, ctx, steps[i]) = Hits(tree, ctx, steps[i])
     /\ CountsAgree(RenameTree(tree, ctx, steps[i]), [k \in 1..Len(toks) |-> RenTok(toks[k], ctx, steps[i])],
                    ctx, steps, i + 1)

\* ---- column lists ---------------------------------------------------------------------------------
RECURSIVE RenCol(_, _, _, _)
RenCol(t, c, steps, i) ==
  IF i > Len(steps) THEN c
  ELSE RenCol(t, IF steps[i].t = t /\ steps[i].old = c THEN steps[i].new ELSE c, steps, i + 1)

\* ---- a default rule ('*' resource) says rec.C about every table: no claim where it names a renamed column
RECURSIVE RecMentions(_, _)
RecMentions(t, kind) ==
  LET k == t[1] IN
  CASE k \in {"Const", "Name", "NoTree", "Malformed"} -> {}
    [] k = "Attr" -> RecMentions(t[2], kind) \cup
                     (LET ch == Chain(t) IN IF Len(ch) = 2 /\ ch[1] \in RecNames(kind) THEN {ch[2]} ELSE {})
    [] k = "Comment" -> RecMentions(t[2], kind)
    [] k = "keywords" -> UNION {RecMentions(t[i][2], kind) : i \in 2..Len(t)}
    [] OTHER -> UNION {RecMentions(t[i], kind) : i \in 2..Len(t)}
Ambiguous(tree, ctx, steps) ==
  ctx.self = "*" /\ \E i \in 1..Len(steps) : {steps[i].old, steps[i].new} \cap RecMentions(tree, ctx.kind) # {}

\* ---- the relation ---------------------------------------------------------------------------------
\* A case:
\*  inp = [texts : <<[expr, style, text, toks, hascmt, comment]>>,
\*         doc   : [attrs : <<[name, charId, tableId, lookupColId]>>, res : <<[tableId, colIds]>>,
\*                  entries : <<[kind, self, choice, res, col, txt]>>, ...],
\*         steps : <<[t, old, new, newcp]>>, path]
\*  out = [exc, renamed, entries : <<[b, a]>>, attrs : <<[b, a]>>, res : <<[b, a]>>, star : [b, a]]
\*  side (b = before, a = after the rename):
\*        [present, text (atom), cps, tree = the code's own parse of text | NoTree, pexc,
\*         has = a parsed form is stored, stored = the stored parsed form as a tree, raw (atom),
\*         rest (atom) = every other field of the record]
CtxOf(inp, e) == [kind |-> e.kind, self |-> e.self, choice |-> e.choice, attrs |-> inp.doc.attrs]

Same(x) == x.a.present /\ x.a.text = x.b.text /\ x.a.has = x.b.has /\ x.a.raw = x.b.raw /\ x.a.rest = x.b.rest

StoredOk(x) ==
  (x.b.has => x.b.stored = x.b.tree)            \* consistent before (else nothing is demanded)
  => /\ x.b.has => x.a.has
     /\ x.a.has => x.a.pexc = "" /\ x.a.stored = x.a.tree

EntryClauses(inp, e, x) ==
  LET ctx == CtxOf(inp, e)
      tx == inp.texts[e.txt]
  IN IF ~x.b.present THEN {}
     ELSE IF x.b.pexc # "" THEN (IF Same(x) THEN {} ELSE {"C17.invalid"})
     ELSE LET exp == Renamed(x.b.tree, ctx, inp.steps)
              amb == Ambiguous(x.b.tree, ctx, inp.steps)
          IN (IF amb \/ (x.a.present /\ x.a.pexc = "" /\ x.a.tree = exp) THEN {} ELSE {"C17.tree"})
             \cup (IF StoredOk(x) THEN {} ELSE {"C17.stored"})
             \cup (IF amb \/ Len(tx.toks) = 0 \/ x.a.cps = ExpectedCps(tx.toks, ctx, inp.steps)
                   THEN {} ELSE {"C17.text"})
             \cup (IF amb THEN {}
                   ELSE IF exp = x.b.tree THEN (IF Same(x) THEN {} ELSE {"C17.other"})
                   ELSE (IF x.a.present /\ x.a.rest = x.b.rest THEN {} ELSE {"C17.other"}))

ResOk(r, steps) ==
  /\ r.a.tableId = r.b.tableId
  /\ r.a.colIds = [i \in 1..Len(r.b.colIds) |-> RenCol(r.b.tableId, r.b.colIds[i], steps, 1)]
AttrOk(x, steps) ==
  x.b.ok => x.a = [x.b EXCEPT !.lookupColId = RenCol(x.b.tableId, x.b.lookupColId, steps, 1)]

ColidsOk(inp, out) ==
  /\ \A i \in 1..Len(out.res) : ResOk(out.res[i], inp.steps)
  /\ \A i \in 1..Len(out.attrs) : AttrOk(out.attrs[i], inp.steps)
  /\ out.star.a = out.star.b

Invalid(out) == {k \in 1..Len(out.entries) : out.entries[k].b.present /\ out.entries[k].b.pexc # ""}

\* the failed clauses, and the entries they failed on
FailedEntries(inp, out) ==
  IF out.exc # "" THEN (IF Invalid(out) # {} THEN Invalid(out) ELSE 1..Len(out.entries))
  ELSE {k \in 1..Len(out.entries) : EntryClauses(inp, inp.doc.entries[k], out.entries[k]) # {}}

Clauses17(inp, out) ==
  IF out.exc # ""
  THEN \* the rename itself failed: because of an unparsable formula, or else nothing was rewritten
       (IF Invalid(out) # {} THEN {"C17.invalid"} ELSE {"C17.tree"})
  ELSE UNION {EntryClauses(inp, inp.doc.entries[k], out.entries[k]) : k \in 1..Len(out.entries)}
       \cup (IF ColidsOk(inp, out) THEN {} ELSE {"C17.colids"})

Ok17(inp, out) == Clauses17(inp, out) = {}
=============================================================================
