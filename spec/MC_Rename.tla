------------------------------ MODULE MC_Rename ------------------------------
(* Bounded design model for C16.  A document: T1(a, b, k, v, r: Ref T2, f = $a, F1..Fn) and      *)
(* T2(k, v, w, q: Ref T1, G1..Gm); the columns T1.k / T2.k and T1.v / T2.v are twins (same name in  *)
(* the other table).  F* / G* are formula columns, one per tree of the families below (every        *)
(* reference form the property names, in several shapes, plus decoys: twins, string literals,       *)
(* comments, local variables named like a column).  Level 1 = one document with the hand-picked     *)
(* trees; Level 2 adds a second document with the products of lookup / order_by / comprehension /   *)
(* PREVIOUS-NEXT-RANK shapes (stepped through with the reduced set of inputs).                      *)
(* An input = (target entity, rename path, requested name); the requested names come from classes   *)
(* (fresh, needs sanitising, collides, keyword, case variants, empty, leading digit, unchanged,     *)
(* grown, name of the other table's column, "id", a keyword of the lookup functions, the name of a   *)
(* function that formulas call).                                                                    *)
(* Full = every combination; otherwise every target x path with the fresh name and every target x   *)
(* every other name class with the first path.                                                      *)
(* One state per input (in Lanes chains); SpecSane: the reference outcome (names picked as          *)
(* identifiers.py intends, texts re-rendered, values kept) is admissible, and only tokens that       *)
(* mention the target differ between the renderings.  The inputs are written to OUT_FILE.            *)
EXTENDS Rename, Json, IOUtils, SequencesExt, FiniteSetsExt
CONSTANTS Level, Full, Lanes

A1 == "T1.a"  B1 == "T1.b"  K1 == "T1.k"  V1 == "T1.v"  R1 == "T1.r"  F1 == "T1.f"
K2 == "T2.k"  V2 == "T2.v"  W2 == "T2.w"  Q2 == "T2.q"
DQ == "\""
SQ == "'"
LR == "lookupRecords"
LO == "lookupOne"

c(x)   == <<"col", x>>
rc(x)  == <<"rec", x>>
ch(s)  == <<"chain", s>>
rch(s) == <<"recchain", s>>
var(x, s) == <<"var", x, s>>
lit(s) == <<"lit", s>>
S(q, sg, col) == <<"s", q, sg, col>>
T(s)   == <<"t", s>>
lk(fn, tab, kws, ob, at)  == <<"lookup", fn, tab, kws, ob, at, "">>
lks(fn, tab, kws, ob, at) == <<"lookup", fn, tab, kws, ob, at, " ">>
all(tab, at) == <<"all", tab, at>>
comp(open, x, elt, src) == <<"comp", open, x, elt, src>>
pn(fn, gb, ob, at) == <<"pn", fn, gb, ob, at>>
call(f, e) == <<"call", f, e>>
list(s) == <<"list", s>>
F(body) == <<body, "">>
FC(body, cmt) == <<body, cmt>>

Map1(X, G(_)) == [j \in 1..Len(X) |-> G(X[j])]
RECURSIVE Flat(_)
Flat(ss) == IF Len(ss) = 0 THEN <<>> ELSE ss[1] \o Flat(Tail(ss))
\* the product of four sequences under G, as a sequence
Prod4(W, X, Y, Z, G(_, _, _, _)) ==
  Flat([w \in 1..Len(W) |-> Flat([x \in 1..Len(X) |-> Flat([y \in 1..Len(Y) |->
        [z \in 1..Len(Z) |-> G(W[w], X[x], Y[y], Z[z])]])])])

(* ---- formulas of T1 ---------------------------------------------------------------------------- *)
Direct1 == <<
  F(c(A1)), F(rc(B1)), F(c(K1)), F(c(V1)), F(rc(F1)), F(list(<<c(A1), rc(A1), c(B1)>>)) >>
Chains1 == <<
  F(ch(<<R1, V2>>)), F(ch(<<R1, K2>>)), F(rch(<<R1, W2>>)), F(ch(<<R1, Q2, A1>>)),
  F(ch(<<R1, Q2, V1>>)), F(ch(<<R1, Q2, F1>>)), F(ch(<<R1, Q2, R1, V2>>)),
  F(rch(<<R1, Q2, R1, Q2, K1>>)) >>
Lookups1 == <<
  F(lk(LR, "T2", <<<<K2, c(A1)>>>>, <<>>, <<V2>>)),
  F(lk(LO, "T2", <<<<K2, c(K1)>>>>, <<>>, <<V2>>)),
  F(lk(LR, "T2", <<<<K2, c(A1)>>, <<W2, rc(B1)>>>>, <<>>, <<W2>>)),
  F(call("len", lk(LR, "T2", <<<<W2, c(B1)>>>>, <<>>, <<>>))),
  F(lk(LO, "T2", <<<<K2, c(A1)>>>>, <<>>, <<Q2, A1>>)),
  F(lk(LR, "T2", <<<<K2, ch(<<R1, K2>>)>>>>, <<>>, <<V2>>)),
  F(lk(LR, "T2", <<<<Q2, lit("$id")>>>>, <<>>, <<V2>>)),
  F(lk(LO, "T2", <<<<K2, c(K1)>>>>, <<>>, <<K2>>)) >>
Ordered1 == <<
  F(lk(LR, "T2", <<<<K2, c(A1)>>>>, S(DQ, "", V2), <<V2>>)),
  F(lk(LR, "T2", <<<<K2, c(A1)>>>>, S(DQ, "-", V2), <<W2>>)),
  F(lk(LR, "T2", <<<<K2, c(A1)>>>>, S(SQ, "", W2), <<V2>>)),
  F(lk(LR, "T2", <<<<K2, c(A1)>>>>, T(<<S(DQ, "", K2), S(DQ, "-", V2)>>), <<V2>>)),
  F(lk(LR, "T2", <<<<W2, c(B1)>>>>, T(<<S(SQ, "", V2)>>), <<K2>>)),
  F(lk(LO, "T2", <<<<K2, c(A1)>>>>, S(DQ, "-", W2), <<V2>>)),
  F(lks(LR, "T2", <<<<K2, c(A1)>>>>, S(DQ, "-", V2), <<V2>>)),
  F(lk(LR, "T2", <<>>, S(DQ, "-", V2), <<W2>>)) >>
All1 == <<
  F(all("T2", <<V2>>)), F(call("len", all("T2", <<>>))), F(all("T2", <<Q2, A1>>)) >>
Comps1 == <<
  F(comp("[", "x", var("x", <<V2>>), lk(LR, "T2", <<<<K2, c(A1)>>>>, <<>>, <<>>))),
  F(comp("[", "x", var("x", <<Q2, A1>>), lk(LR, "T2", <<<<K2, c(A1)>>>>, S(DQ, "-", W2), <<>>))),
  F(comp("[", "x", var("x", <<V2>>), all("T2", <<>>))),
  F(comp("sum(", "y", var("y", <<W2>>), all("T2", <<>>))),
  F(comp("[", "v", var("v", <<V2>>), all("T2", <<>>))),
  F(comp("sorted(", "k", var("k", <<K2>>), lk(LR, "T2", <<<<K2, c(K1)>>>>, <<>>, <<>>))) >>
PrevNext1 == <<
  F(pn("PREVIOUS", S(DQ, "", A1), S(DQ, "", B1), <<B1>>)),
  F(pn("NEXT", <<>>, S(DQ, "-", B1), <<V1>>)),
  F(pn("PREVIOUS", T(<<S(DQ, "", A1)>>), T(<<S(DQ, "", B1), S(DQ, "-", V1)>>), <<R1, V2>>)),
  F(pn("RANK", S(DQ, "", A1), S(DQ, "", B1), <<>>)),
  F(pn("RANK", <<>>, T(<<S(SQ, "", K1), S(SQ, "-", B1)>>), <<>>)),
  F(pn("NEXT", T(<<S(DQ, "", A1), S(DQ, "", K1)>>), S(SQ, "", V1), <<A1>>)) >>
Decoys1 == <<
  F(list(<<<<"str", "v", DQ>>, <<"str", "a", SQ>>, <<"str", "T2", SQ>>, c(A1)>>)),
  FC(c(V1), "v a T2 $a rec.b $r.v T2.lookupRecords(k=$a)"),
  F(list(<<c(V1), ch(<<R1, V2>>), <<"str", "$v", DQ>>>>)),
  F(<<"fstr", c(V1)>>),
  F(<<"fstr", ch(<<R1, V2>>)>>),
  FC(lk(LR, "T2", <<<<K2, c(K1)>>>>, S(DQ, "-", V2), <<V2>>), "order_by=\"v\" k=$k") >>
Lets1 == <<
  F(<<"let", "x", c(R1), var("x", <<V2>>)>>),
  F(<<"let", "y", lk(LO, "T2", <<<<K2, c(A1)>>>>, <<>>, <<>>), var("y", <<W2>>)>>),
  F(<<"let", "v", ch(<<R1, Q2>>), list(<<var("v", <<V1>>), c(V1)>>)>>) >>

(* ---- formulas of T2 ---------------------------------------------------------------------------- *)
Host2 == <<
  F(c(K2)), FC(rc(V2), "v"), F(ch(<<Q2, A1>>)), F(ch(<<Q2, R1, V2>>)),
  F(lk(LR, "T1", <<<<R1, lit("$id")>>>>, <<>>, <<A1>>)),
  F(lk(LR, "T1", <<<<K1, c(K2)>>>>, S(DQ, "-", B1), <<B1>>)),
  F(all("T1", <<A1>>)),
  F(pn("PREVIOUS", S(DQ, "", K2), S(DQ, "", V2), <<W2>>)),
  F(comp("[", "x", var("x", <<A1>>), lk(LR, "T1", <<<<K1, c(W2)>>>>, <<>>, <<>>))),
  F(pn("RANK", <<>>, T(<<S(DQ, "-", W2), S(DQ, "", V2)>>), <<>>)) >>

(* ---- Level 2: products ------------------------------------------------------------------------- *)
KwSets == << <<<<K2, c(A1)>>>>, <<<<W2, rc(B1)>>>>, <<<<K2, c(K1)>>, <<W2, c(B1)>>>>, <<>> >>
Orders == << <<>>, S(DQ, "", V2), S(DQ, "-", V2), S(SQ, "", W2),
             T(<<S(DQ, "", K2), S(DQ, "-", V2)>>), T(<<S(SQ, "-", W2)>>) >>
LookupProd ==
  LET g(fn, kws, ob, at) == F(lk(fn, "T2", kws, ob, at))
  IN Prod4(<<LR, LO>>, KwSets, Orders, << <<V2>>, <<Q2, A1>> >>, g)
GroupBys == << <<>>, S(DQ, "", A1), T(<<S(DQ, "", A1)>>), T(<<S(SQ, "", A1), S(SQ, "", K1)>>) >>
OrderBys == << S(DQ, "", B1), S(DQ, "-", B1), T(<<S(DQ, "", B1), S(DQ, "-", V1)>>) >>
PrevNextProd ==
  LET g(fn, gb, ob, at) == F(pn(fn, gb, ob, IF fn = "RANK" THEN <<>> ELSE at))
  IN Prod4(<<"PREVIOUS", "NEXT">>, GroupBys, OrderBys, << <<B1>>, <<R1, V2>> >>, g)
     \o Prod4(<<"RANK">>, GroupBys, OrderBys, << <<>> >>, g)
CompProd ==
  LET g(open, x, at, src) == F(comp(open, x, var(x, at), src))
  IN Prod4(<<"[", "sum(", "{">>, <<"x", "v">>, << <<V2>>, <<Q2, A1>> >>,
           << lk(LR, "T2", <<<<K2, c(A1)>>>>, <<>>, <<>>), lk(LR, "T2", <<<<K2, c(A1)>>>>, S(DQ, "-", V2), <<>>),
              all("T2", <<>>) >>, g)

\* document 1: the hand-picked trees; document 2 (Level 2 only): the products
FormulasT1(d) == IF d = 1 THEN Direct1 \o Chains1 \o Lookups1 \o Ordered1 \o All1 \o Comps1 \o PrevNext1
                                \o Decoys1 \o Lets1
                 ELSE LookupProd \o PrevNextProd \o CompProd
FormulasT2(d) == Host2

(* ---- the document ------------------------------------------------------------------------------ *)
DataCol(id, tab, name, data) ==
  [id |-> id, tab |-> tab, name |-> name, type |-> "Int", to |-> "", data |-> data, body |-> <<"none">>, cmt |-> "", ord |-> 0]
RefCol(id, tab, name, to, data) ==
  [id |-> id, tab |-> tab, name |-> name, type |-> "Ref", to |-> to, data |-> data, body |-> <<"none">>, cmt |-> "", ord |-> 0]
FCol(id, tab, name, f) ==
  [id |-> id, tab |-> tab, name |-> name, type |-> "Any", to |-> "", data |-> <<>>, body |-> f[1], cmt |-> f[2], ord |-> 0]
FCols(tab, prefix, fs) ==
  [j \in 1..Len(fs) |-> FCol(tab \o "." \o prefix \o NumStr(j), tab, prefix \o NumStr(j), fs[j])]

ColSeq(d) == << DataCol(A1, "T1", "a", <<1, 2, 1>>), DataCol(B1, "T1", "b", <<3, 1, 2>>),
               DataCol(K1, "T1", "k", <<2, 1, 3>>), DataCol(V1, "T1", "v", <<9, 8, 7>>),
               RefCol(R1, "T1", "r", "T2", <<2, 3, 1>>),
               DataCol(K2, "T2", "k", <<1, 1, 2, 3>>), DataCol(V2, "T2", "v", <<5, 3, 4, 7>>),
               DataCol(W2, "T2", "w", <<2, 1, 1, 3>>), RefCol(Q2, "T2", "q", "T1", <<1, 2, 3, 1>>),
               FCol(F1, "T1", "f", F(c(A1))) >>
            \o FCols("T1", "F", FormulasT1(d)) \o FCols("T2", "G", FormulasT2(d))
\* keyed by identity; `ord` = the order in which the harness adds the columns
\* (TLC re-evaluates a definition at every use: bind the sequence once)
Doc(d) ==
  LET cs  == ColSeq(d)
      idx == [j \in 1..Len(cs) |-> cs[j].id]
  IN [tables |-> << [id |-> "T1", name |-> "T1", nrows |-> 3], [id |-> "T2", name |-> "T2", nrows |-> 4] >>,
      cols |-> [id \in SeqRange(idx) |->
                  LET j == CHOOSE j \in 1..Len(idx) : idx[j] = id
                  IN [tab |-> cs[j].tab, name |-> cs[j].name, type |-> cs[j].type, to |-> cs[j].to,
                      data |-> cs[j].data, body |-> cs[j].body, cmt |-> cs[j].cmt, ord |-> j]]]

(* ---- targets, paths, requested names ----------------------------------------------------------- *)
ColTargets == <<A1, B1, K1, V1, R1, F1, "T1.F1", K2, V2, W2, Q2, "T2.G1">>
TabTargets == <<"T1", "T2">>
ColPathSeq == <<"RenameColumn", "colId", "label", "label_untied", "retie">>
TabPathSeq == <<"RenameTable", "tableId", "title">>
ASSUME SeqRange(ColPathSeq) = ColPaths /\ SeqRange(TabPathSeq) = TablePaths

DownTable == [x \in Uppers |-> Char(LowerS, CHOOSE i \in 1..26 : Char(UpperS, i) = x)]
RECURSIVE DownFrom(_, _)
DownFrom(s, i) == IF i > Len(s) THEN ""
                  ELSE (IF Char(s, i) \in Uppers THEN DownTable[Char(s, i)] ELSE Char(s, i)) \o DownFrom(s, i + 1)
Down(s) == DownFrom(s, 1)

OtherCol(D, e) == IF e = A1 THEN B1 ELSE IF ColOf(D, e).tab = "T1" THEN A1 ELSE IF e = W2 THEN V2 ELSE W2
ColReqs(D, e) ==
  LET own == ColOf(D, e).name  sib == ColOf(D, OtherCol(D, e)).name IN
  << <<"fresh", "zz">>, <<"sanitise", "my col!">>, <<"collide", sib>>, <<"keyword", "class">>,
     <<"case", Up(own)>>, <<"sibcase", Up(sib)>>, <<"empty", "">>, <<"digit", "1st">>,
     <<"same", own>>, <<"grow", own \o own>>,
     <<"othertab", IF ColOf(D, e).tab = "T1" THEN "w" ELSE "b">>, <<"id", "id">>,
     <<"lookupkw", "sort_by">> >>
TabReqs(D, e) ==
  LET own == TabOf(D, e).name  sib == IF e = "T1" THEN "T2" ELSE "T1" IN
  << <<"fresh", "Zz">>, <<"capitalise", "zz">>, <<"sanitise", "my tab!">>, <<"collide", sib>>,
     <<"keyword", "none">>, <<"case", Down(own)>>, <<"sibcase", Down(sib)>>, <<"empty", "">>,
     <<"digit", "2x">>, <<"same", own>>, <<"grow", own \o own>>, <<"colname", "v">>,
     <<"function", "PREVIOUS">> >>

Mk(d, e, p, r) == [doc |-> d, target |-> e, path |-> p, cls |-> r[1], req |-> r[2]]
\* mode "full": every combination; "reduced": every target x path with the first name class and every
\* target x name class with the first path; "quick": likewise, but every other name class per target
InputsOf(D, d, mode, targets, paths, Reqs(_, _)) ==
  Flat([t \in 1..Len(targets) |-> Flat([p \in 1..Len(paths) |->
     LET rs == Reqs(D, targets[t])
         keep(r) == mode = "full" \/ r = 1 \/ (p = 1 /\ (mode = "reduced" \/ (t + r) % 2 = 0))
     IN SelectSeq([r \in 1..Len(rs) |-> <<r, Mk(d, targets[t], paths[p], rs[r])>>],
                  LAMBDA x : keep(x[1]))])])
InputsFor(D, d, mode) ==
  Map1(InputsOf(D, d, mode, ColTargets, ColPathSeq, ColReqs) \o InputsOf(D, d, mode, TabTargets, TabPathSeq, TabReqs),
       LAMBDA x : x[2])
\* the documents and the inputs of this configuration
Space == LET D1 == Doc(1)
             m1 == IF Full THEN "full" ELSE "quick" IN
         IF Level < 2 THEN [docs |-> <<D1>>, xs |-> InputsFor(D1, 1, m1)]
         ELSE LET D2 == Doc(2) IN [docs |-> <<D1, D2>>, xs |-> InputsFor(D1, 1, m1) \o InputsFor(D2, 2, "reduced")]

(* ---- reference outcome ------------------------------------------------------------------------- *)
Hidden == [e \in {"T1.manualSort", "T2.manualSort"} |-> "manualSort"]
InOf(D, x) == [sch |-> D, target |-> x.target, path |-> x.path, req |-> x.req]
Ref(in) ==
  LET N0   == Names0(in.sch) @@ Hidden
      kind == KindOf(in)
      used == UpSet(Siblings(in, N0) \cup (IF kind = "col" THEN {"id"} ELSE {}))
      new  == IF in.path = "label_untied" THEN N0[in.target] ELSE PickName(kind, in.req, used)
      N1   == [N0 EXCEPT ![in.target] = new]
      cids == ColIds(in.sch)
      ents == DOMAIN N0 \ TableIds(in.sch)
      texts(Nm) == [e \in ents |-> IF e \in cids THEN FormulaText(Nm, in.sch.cols[e]) ELSE ""]
      t0   == texts(N0)
      vals == [e \in ents |-> <<"#0">>]
  IN [fail |-> "", exc |-> "", names0 |-> N0, names1 |-> N1, names2 |-> N0,
      texts0 |-> t0, texts1 |-> texts(N1), texts2 |-> t0,
      vals0 |-> vals, vals1 |-> vals, vals1r |-> vals, vals2 |-> vals, dig0 |-> 0, dig1 |-> 1, cons1 |-> TRUE, undo_exc |-> ""]

\* the documents are in the family; every target that a formula can mention is mentioned
ASSUME LET sp == Space IN
       /\ \A d \in 1..Len(sp.docs) :
            LET D == sp.docs[d] IN
            /\ SchOk(D)
            /\ \A e \in {A1, B1, K1, V1, R1, K2, V2, W2, Q2, "T1", "T2"} \cup (IF d = 1 THEN {F1} ELSE {}) :
                  \E id \in ColIds(D) : e \in Mentions(D, D.cols[id])
       /\ "OUT_FILE" \in DOMAIN IOEnv => JsonSerialize(IOEnv.OUT_FILE, [docs |-> sp.docs, inputs |-> sp.xs])

\* One state per input; Lanes chains of states so that TLC's workers share the evaluation.  `space`
\* (the documents and the inputs) is evaluated once and carried along.
VARIABLES k, space
Init == space = Space /\ k \in 1..Lanes
Next == k + Lanes <= Len(space.xs) /\ k' = k + Lanes /\ UNCHANGED space
SpecSane ==
  k <= Len(space.xs) =>
    LET in == InOf(space.docs[space.xs[k].doc], space.xs[k])
        o  == Ref(in)
    IN /\ StepOk(in)
       /\ Ok(in, o)
       /\ OnlyMentionsChange(in.sch, o.names0, o.names1, {in.target})
=============================================================================
