INIT Init
NEXT Next
CONSTANTS MaxNodes = 4
          LetDepth = 2
          Level = "thorough"
          Lanes = 64
INVARIANT SpecSane
CHECK_DEADLOCK FALSE
