INIT Init
NEXT Next
CONSTANTS MaxNodes = 4
          LetDepth = 2
          Level = "thorough"
          PerMid = 0
          PerLet = 4
          PerBig = 2
          Lanes = 64
INVARIANT SpecSane
CHECK_DEADLOCK FALSE
