INIT Init
NEXT Stutter
INVARIANT InverseLemma
INVARIANT ShapeLemma
INVARIANT UndoWellFormed
CHECK_DEADLOCK FALSE
