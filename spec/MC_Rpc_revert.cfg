INIT Init
NEXT Next
CONSTANTS MaxLen = 2
          MarshalTotal = FALSE
          Revert = TRUE
INVARIANT Atomic
INVARIANT Mirror
INVARIANT InSync
CHECK_DEADLOCK TRUE
