INIT Init
NEXT Next
CONSTANTS MaxWide = 1
          MaxNarrow = 1
          Lanes = 64
INVARIANT SpecSane
CHECK_DEADLOCK FALSE
