--------------------------- MODULE MC_FormulaText ---------------------------
(* Bounded design model for C19.                                                                    *)
(* (A) every formula tree of at most MaxNodes nodes over the leaves below (record fields $a/$b,      *)
(*     small ints, string constants that CONTAIN "$a" / "rec.b" / a newline), conditionals on a few  *)
(*     tests, and one-statement-then-expression programs (Let); each with the spellings that apply   *)
(*     to it (the names are rendering strategies of harness/fn_formulatext.py; the meaning of a tree *)
(*     does not depend on the spelling - that is the property).                                      *)
(* (B) the grammar of broken fragments: (kind x position x line-break convention).                   *)
(* One state per tree; invariant SpecSane: the tree is well-formed, its meaning stays in the value   *)
(* universe, the relation FClauses is satisfied by the reference outcome (with the adversarial        *)
(* bundle accepted, and rejected) and REJECTS corrupted outcomes.  The enumerated space is written   *)
(* to OUT_FILE; the worker renders it and runs the real engine on it.                                *)
EXTENDS FormulaText, TLC, Json, IOUtils, SequencesExt, FiniteSetsExt
CONSTANTS MaxNodes,      \* 3 or 4: largest tree over the wide leaves
          LetDepth,      \* 1 or 2: size of the expression bound by the statement of a Let
          Level,         \* "quick" | "thorough": how much of the fragment grammar's product
          PerMid, PerLet, PerBig,   \* how many of its spellings a tree of that family gets (0 = all), taken in turn
          Lanes

Map1(A, G(_)) == [j \in 1..Len(A) |-> G(A[j])]
Map2(A, B, G(_, _)) ==
  [j \in 1..(Len(A) * Len(B)) |-> G(A[((j - 1) \div Len(B)) + 1], B[((j - 1) % Len(B)) + 1])]
Map3(A, B, D, G(_, _, _)) ==
  [j \in 1..(Len(A) * Len(B) * Len(D)) |->
     G(A[((j - 1) \div (Len(B) * Len(D))) + 1], B[(((j - 1) \div Len(D)) % Len(B)) + 1], D[((j - 1) % Len(D)) + 1])]

\* ---- (A) trees ------------------------------------------------------------------------------------
DollarA == S(<<36, 97>>)                  \* the text  $a
RecDotB == S(<<114, 101, 99, 46, 98>>)    \* the text  rec.b
TwoLines == S(<<97, 10, 36, 98>>)         \* the text  a<newline>$b
WideLeaves == <<RecA, RecB, C(0), C(1), C(2), DollarA, RecDotB, TwoLines>>
NarrowLeaves == <<RecB, C(1), DollarA>>

BinSeq == <<"Add", "Sub", "Mult", "Div", "Mod", "Eq", "NotEq", "Lt", "GtE", "In", "And", "Or">>
Un(A) == LET not(t) == <<"Not", t>>  fmt(t) == <<"Fmt", t>> IN Map1(A, not) \o Map1(A, fmt)
Bi(A, B) == LET g(op, a, b) == <<op, a, b>> IN Map3(BinSeq, A, B, g)
Cond3(A, B, D) == LET g(c, t, e) == <<"Cond", c, t, e>> IN Map3(A, B, D, g)

S1 == WideLeaves
S2 == Un(S1)
S3 == Un(S2) \o Bi(S1, S1)
\* (built only when asked for: a named constant definition would be evaluated at start-up in any case)
S4(dummy) == Un(S3) \o Bi(S1, S2) \o Bi(S2, S1) \o Cond3(S1, S1, S1)

CondTests == <<RecA, <<"Lt", RecA, C(1)>>, <<"Eq", RecB, C(0)>>, DollarA, <<"Div", C(1), RecA>>>>
Conds == Cond3(CondTests, NarrowLeaves, NarrowLeaves)

LetExprs == IF LetDepth >= 2 THEN S1 \o S2 ELSE S1
Lets ==
  LET l(e, op, x) == <<"Let", LetName, e, <<op, Y, x>>>>
      r(e, op, x) == <<"Let", LetName, e, <<op, x, Y>>>>
      c(e, x, z) == <<"Let", LetName, e, <<"Cond", Y, x, z>>>>
      f(e) == <<"Let", LetName, e, <<"Fmt", Y>>>>
  IN Map3(LetExprs, BinSeq, NarrowLeaves, l) \o Map3(LetExprs, BinSeq, NarrowLeaves, r)
     \o Map3(LetExprs, NarrowLeaves, NarrowLeaves, c) \o Map1(LetExprs, f)

\* bounded-depth (non-recursive) versions of FormulaText!Has for the trees of this model (depth <= 5)
KidIdx(t) == CASE t[1] \in {"Const", "Name", "Attr"} -> {} [] t[1] = "Let" -> {3, 4} [] OTHER -> 2..Len(t)
H0(t, w) == Test(t, w)
H1(t, w) == Test(t, w) \/ \E j \in KidIdx(t) : H0(t[j], w)
H2(t, w) == Test(t, w) \/ \E j \in KidIdx(t) : H1(t[j], w)
H3(t, w) == Test(t, w) \/ \E j \in KidIdx(t) : H2(t[j], w)
H4(t, w) == Test(t, w) \/ \E j \in KidIdx(t) : H3(t[j], w)
H5(t, w) == Test(t, w) \/ \E j \in KidIdx(t) : H4(t[j], w)
HasStrB(t) == H5(t, "str")
HasFmtB(t) == H5(t, "fmt")

General == <<"dollar", "rec", "return", "comment", "indent", "crlf", "cr", "multiline">>
Blocks == <<"ifret", "ifearly", "ifassign", "ifone", "iftab">>
CondAtEnd(t) == t[1] = "Cond" \/ (t[1] = "Let" /\ t[4][1] = "Cond")
SpellingsOf(t) ==
  General \o (IF HasStrB(t) \/ HasFmtB(t) THEN <<"fstr">> ELSE <<>>)
          \o (IF HasStrB(t) THEN <<"triple", "ftriple", "strcont">> ELSE <<>>)
          \o (IF CondAtEnd(t) THEN Blocks ELSE <<>>)
          \o (IF t[1] = "Let" THEN <<"semicolon">> ELSE <<>>)
AllSpellings == General \o <<"fstr", "triple", "ftriple", "strcont">> \o Blocks \o <<"semicolon">>

\* k of the spellings that apply, starting at a position that moves with the tree (0 = all of them)
Pick(sp, j, k) == IF k = 0 \/ k >= Len(sp) THEN sp ELSE [q \in 1..k |-> sp[((j + q - 2) % Len(sp)) + 1]]
Fam(A, fam, k) == [j \in 1..Len(A) |-> [t |-> A[j], sp |-> Pick(SpellingsOf(A[j]), j, k), fam |-> fam]]
Items == Fam(S1 \o S2, "small", 0) \o Fam(Conds, "cond", 0) \o Fam(S3, "mid", PerMid) \o Fam(Lets, "let", PerLet)
         \o (IF MaxNodes >= 4 THEN Fam(S4(0), "big", PerBig) ELSE <<>>)
N == Len(Items)

Rows == <<<<0, 3>>, <<1, 0>>, <<2, -1>>, <<-3, 2>>>>
NewRow == <<5, -2>>

\* ---- (B) the grammar of broken fragments ----------------------------------------------------------
\* <<category, kind>>: the kinds are the terminal alphabet the worker knows how to write down
FragKinds ==
  << <<"bracket", "open_paren">>, <<"bracket", "close_paren">>, <<"bracket", "open_bracket">>,
     <<"bracket", "open_brace">>, <<"bracket", "close_bracket">>, <<"bracket", "mismatch">>,
     <<"assign", "dollar_assign">>, <<"assign", "rec_assign">>, <<"assign", "recattr_assign">>,
     <<"assign", "dollar_augassign">>, <<"assign", "for_rec">>, <<"assign", "walrus_rec">>,
     <<"assign", "dollar_kwarg">>, <<"assign", "def_dollar">>,
     <<"noreturn", "no_return">>, <<"noreturn", "if_noreturn">>, <<"noreturn", "assert_only">>,
     <<"noreturn", "raise_only">>,
     <<"return", "bare_return">>, <<"return", "return_twice">>, <<"return", "class_return">>,
     <<"return", "break_outside">>, <<"return", "continue_outside">>, <<"return", "yield_stmt">>,
     <<"return", "yield_from">>, <<"return", "await_expr">>, <<"return", "async_def">>,
     <<"return", "nonlocal_q">>, <<"return", "global_rec">>, <<"return", "import_star">>,
     <<"return", "future_import">>, <<"return", "dup_arg">>,
     <<"indent", "bad_indent">>, <<"indent", "dedent_mismatch">>, <<"indent", "tab_space">>,
     <<"indent", "indent_first_only">>, <<"indent", "empty_block">>,
     <<"dollar", "lone_dollar">>, <<"dollar", "dollar_digit">>, <<"dollar", "dollar_space">>,
     <<"dollar", "dollar_dollar">>, <<"dollar", "dollar_paren">>, <<"dollar", "dollar_keyword">>,
     <<"dollar", "dollar_none">>, <<"dollar", "dollar_nonascii">>, <<"dollar", "dollar_end">>,
     <<"dollar", "dollar_name">>, <<"dollar", "dollar_unknown">>,
     <<"string", "unterm_str">>, <<"string", "unterm_sq">>, <<"string", "unterm_triple">>,
     <<"string", "unterm_triple_sq">>, <<"string", "triple_close_reopen">>, <<"string", "triple_swallow">>,
     <<"string", "triple_valid_code">>, <<"string", "unterm_fstring">>, <<"string", "fstring_dollar_unclosed">>,
     <<"string", "backslash_eof">>, <<"string", "lone_backslash">>, <<"string", "raw_backslash">>,
     <<"string", "bad_escape_name">>, <<"string", "bytes_nonascii">>,
     <<"trivia", "only_comment">>, <<"trivia", "only_ws">>, <<"trivia", "only_newlines">>,
     <<"trivia", "only_tab">>, <<"trivia", "ws_comment">>, <<"trivia", "semicolon_only">>, <<"trivia", "empty">>,
     <<"stmt", "pass_stmt">>, <<"stmt", "import_os">>, <<"stmt", "def_f">>, <<"stmt", "lambda_expr">>,
     <<"stmt", "ellipsis">>, <<"stmt", "del_rec">>,
     <<"ident", "nonascii_ident">>, <<"ident", "nonascii_name">>, <<"ident", "fullwidth">>, <<"ident", "nbsp">>,
     <<"ident", "zero_width">>, <<"ident", "bom">>, <<"ident", "line_sep">>, <<"ident", "surrogate">>,
     <<"ident", "emoji">>, <<"ident", "coding_cookie">>,
     <<"control", "nul">>, <<"control", "nul_in_str">>, <<"control", "formfeed">>, <<"control", "formfeed_mid">>,
     <<"control", "vtab">>, <<"control", "x1c">>, <<"control", "x85">>, <<"control", "bell">>, <<"control", "del_char">>,
     <<"long", "long_line">>, <<"long", "long_line_ok">>, <<"long", "long_name">>, <<"long", "long_string">>,
     <<"long", "many_lines">>, <<"long", "deep_parens">>, <<"long", "deep_brackets">>, <<"long", "many_dollars">> >>

\* where the fragment stands relative to valid text ("codeshape": followed by text shaped like the
\* generated module - a dedent to class level that redefines K)
Positions == <<"alone", "before", "after", "inline_after", "inline_before", "block", "indented", "codeshape">>
Newlines == <<"lf", "crlf", "cr">>
InLevel(pos, nl) == Level = "thorough" \/ nl = "lf" \/ pos \in {"alone", "codeshape"}
Frags ==
  LET g(k, pos, nl) == [cat |-> k[1], kind |-> k[2], pos |-> pos, nl |-> nl]
  IN SelectSeq(Map3(FragKinds, Positions, Newlines, g), LAMBDA f : InLevel(f.pos, f.nl))

ASSUME Cardinality({FragKinds[j][2] : j \in 1..Len(FragKinds)}) = Len(FragKinds)
ASSUME /\ "OUT_FILE" \in DOMAIN IOEnv
       => JsonSerialize(IOEnv.OUT_FILE,
            [items |-> Items, frags |-> Frags, rows |-> Rows, newrow |-> NewRow, known |-> Known,
             fix |-> FixTree, xinit |-> XInit, spellings |-> AllSpellings])

\* ---- the invariant --------------------------------------------------------------------------------
Other == <<"other", 0>>
Corrupt(seq, r, v) == [seq EXCEPT ![r] = v]
Undefs(f) == {r \in 1..Len(f) : Tag(f[r]) = "undef"}
MinOfSet(A) == CHOOSE x \in A : \A z \in A : x <= z

\* One state per tree (plus the initial one).  Two TLC facts shape this:
\*  - TLC decides by NAME whether a definition is constant-level (= evaluated once and for all), so the
\*    variables must not be called like any bound identifier of the modules above;
\*  - LET-bound values are cached only while an ACTION is evaluated, not in an invariant or in Init, so
\*    the check of a tree is done by Next and the invariant just reads its verdict.
VARIABLES lane, sane
Sane(k) ==
  LET t == Items[k].t
      in == [tree |-> t, rows |-> Rows, newrow |-> NewRow]
      E == Expect(in, TRUE)
      good == Ref(in, TRUE)
      n1 == Len(Rows) + 1
      judged == (1..Len(Rows)) \ Undefs(E.f)
  IN /\ WFF(t)
     /\ HasStrB(t) = HasStr(t) /\ HasFmtB(t) = HasFmt(t)
     /\ \A r \in 1..n1 : IsCell(E.f[r])
     /\ FOk(in, good) /\ FOk(in, Ref(in, FALSE))
     \* corrupted outcomes are rejected, each by the clause that speaks about it
     /\ judged # {} => "C19.meaning" \in FClauses(in, [good EXCEPT !.s1.F = Corrupt(@, MinOfSet(judged), Other)])
     /\ "C19.meaning" \in FClauses(in, [good EXCEPT !.f_ok = FALSE])
     \* (the clauses that do not look at the tree: on the first trees only)
     /\ k > 8 \/
        /\ "C19.ok" \in FClauses(in, [Ref(in, FALSE) EXCEPT !.same = FALSE])
        /\ "C19.ok" \in FClauses(in, [good EXCEPT !.consistent = FALSE])
        /\ "C19.others" \in FClauses(in, [good EXCEPT !.s3.K = Corrupt(@, n1, VInt(99))])
        /\ "C19.usable" \in FClauses(in, [good EXCEPT !.s3.K = Corrupt(@, n1, VInt(99))])
        /\ "C19.loc" \in FClauses(in, [good EXCEPT !.s2.G = Corrupt(@, 1, Err)])
        /\ "C19.loc" \in FClauses(in, [good EXCEPT !.elsewhere = 1])
        /\ "C19.usable" \in FClauses(in, [good EXCEPT !.add_ok = FALSE])
        /\ "C19.usable" \in FClauses(in, [good EXCEPT !.s4.X = Corrupt(@, 1, Err)])
Init == lane = 0 /\ sane = TRUE
Next == /\ IF lane = 0 THEN lane' \in 1..(IF N < Lanes THEN N ELSE Lanes)
                       ELSE lane + Lanes <= N /\ lane' = lane + Lanes
        /\ sane' = Sane(lane')
SpecSane == sane
=============================================================================
