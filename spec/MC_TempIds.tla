----------------------------- MODULE MC_TempIds -----------------------------
(* Bounded design model of TempIds (C26).                                                          *)
(*                                                                                                  *)
(* The document is Doc0: A = {1, 2}, B = {1, 2, 3} with some references between them (so that the   *)
(* next automatic id differs between the tables: 3 in A, 4 in B).  The ALPHABET of actions is built *)
(* from the constants of the .cfg file:                                                             *)
(*   AddRecord t id payload        id \in AddIds (0 = None, 6 = an explicit free id)                *)
(*   BulkAddRecord t ids payload   ids \in BulkAddIds, payloads: none, r for both records           *)
(*   UpdateRecord t id payload     id \in AddrIds; payload s, r \in UpdRefVals, rl \in UpdListVals  *)
(*   BulkUpdateRecord t ids s/r    ids \in BulkAddrIds                                              *)
(*   RemoveRecord t id, BulkRemoveRecord t ids                                                      *)
(* with payloads of adds: none, r = x (x \in RefVals), rl = l (l \in ListVals; table A only).       *)
(* Every action sets column s to a value of its own (100 * index in the alphabet + position).       *)
(* A bundle is any sequence of 1..MaxLen actions of the alphabet (see Keep): forward references, references *)
(* across tables (A.r = -1 names B's -1, not A's), temporary ids used by two adds, and negative ids *)
(* nobody creates all arise from the product.                                                       *)
(*                                                                                                  *)
(* The state is the bundle (as indices into the alphabet); Next appends one action, so TLC reaches  *)
(* every bundle of the bound (and evaluates the invariants on its workers).                         *)
(*   SpecSane   the reference interpretation is an admissible outcome (the relation is satisfiable  *)
(*              on every bundle, and agrees with the interpreter run on the reference allocation);  *)
(*   Resolved   in a served reference outcome no negative id is left in any reference cell, every   *)
(*              temporary id stands for a row allocated in this bundle, the adds' rows are fresh;   *)
(*   Sharp      the relation rejects (a) serving a MustReject bundle, (b) rejecting a strict one,   *)
(*              (c) a rejection of a MustReject bundle that changed the document, and               *)
(*              (d) a served outcome where a reference cell of a new row lost its row.              *)
(* The alphabet and the bundles are also written to OUT_FILE for the harness.                       *)
EXTENDS TempIds, TLC, Json, IOUtils, SequencesExt, FiniteSetsExt
CONSTANTS AddIds, BulkAddIds, RefVals, ListVals, BulkRefVals,
          AddrIds, BulkAddrIds, UpdRefVals, UpdListVals, RemIds, BulkRemIds, MaxLen

\* ---- constant sets for the .cfg files (negative numbers cannot be written there) --------------
Ids3       == {-1, -2, 0}
Ids4       == {-1, -2, 0, 6}
Refs2      == {-1, -2}
Refs3      == {-1, -2, 1}
Refs1      == {-1}
Lists1     == {<<1, -1>>}
Lists3     == {<<-1>>, <<1, -1>>, <<-1, -2>>}
Addr2      == {-1, 1}
Addr3      == {-1, -2, 1}
None0      == {}
Bulk1      == {<<-1, -2>>}
Bulk3      == {<<-1, -2>>, <<-1, -1>>, <<0, -1>>}
BulkRefs1  == {<<-1, -2>>}
BulkRefs2  == {<<-1, -2>>, <<-2, -2>>}
BulkAddr2  == {<<-1, -2>>, <<-1, 1>>}

Doc0Rows == [A |-> << [id |-> 1, s |-> 11, r |-> 1, rl |-> <<>>],
                      [id |-> 2, s |-> 12, r |-> 0, rl |-> <<1, 2>>] >>,
             B |-> << [id |-> 1, s |-> 21, r |-> 2, rl |-> <<>>],
                      [id |-> 2, s |-> 22, r |-> 0, rl |-> <<>>],
                      [id |-> 3, s |-> 23, r |-> 1, rl |-> <<>>] >>]
ToTab(rows) == [id \in {rows[i].id : i \in 1..Len(rows)} |->
                  LET i == CHOOSE i \in 1..Len(rows) : rows[i].id = id
                  IN [s |-> rows[i].s, r |-> rows[i].r, rl |-> rows[i].rl]]
Doc0 == [t \in Tables |-> ToTab(Doc0Rows[t])]

\* ---- the alphabet ------------------------------------------------------------------------------
Act(k, t, ids, col, vals) == [k |-> k, t |-> t, ids |-> ids, s |-> <<>>, col |-> col, vals |-> vals]
One(x) == <<x>>

AddPay(t) == {[col |-> "", v |-> <<>>]} \cup {[col |-> "r", v |-> <<x>>] : x \in RefVals}
             \cup (IF t = "A" THEN {[col |-> "rl", v |-> l] : l \in ListVals} ELSE {})
UpdPay(t) == {[col |-> "s", v |-> <<0>>]} \cup {[col |-> "r", v |-> <<x>>] : x \in UpdRefVals}
             \cup (IF t = "A" THEN {[col |-> "rl", v |-> l] : l \in UpdListVals} ELSE {})

Bare ==
  UNION {
    {Act("Add", t, <<i>>, p.col, IF p.col = "" THEN <<>> ELSE <<p.v>>) : i \in AddIds, p \in AddPay(t)}
    \cup {Act("BulkAdd", t, q, "", <<>>) : q \in BulkAddIds}
    \cup {Act("BulkAdd", t, q, "r", <<One(v[1]), One(v[2])>>) : q \in BulkAddIds, v \in BulkRefVals}
    \cup {Act("Upd", t, <<i>>, p.col, <<p.v>>) : i \in AddrIds, p \in UpdPay(t)}
    \cup {Act("BulkUpd", t, q, "s", <<One(0), One(0)>>) : q \in BulkAddrIds}
    \cup {Act("BulkUpd", t, q, "r", <<One(v[1]), One(v[2])>>) : q \in BulkAddrIds, v \in BulkRefVals}
    \cup {Act("Rem", t, <<i>>, "", <<>>) : i \in RemIds}
    \cup {Act("BulkRem", t, q, "", <<>>) : q \in BulkRemIds}
    : t \in Tables}

BareSeq == SetToSeq(Bare)
N == Len(BareSeq)
\* every action writes values of its own into column s
Alphabet ==
  [i \in 1..N |->
     LET a == BareSeq[i]
     IN IF IsAdd(a) THEN [a EXCEPT !.s = [j \in 1..Len(a.ids) |-> 100 * i + j]]
        ELSE IF a.col = "s" THEN [a EXCEPT !.vals = [j \in 1..Len(a.ids) |-> <<100 * i + 50 + j>>]]
        ELSE a]

ASSUME \A i \in 1..N : WellFormed(Alphabet[i])

Bundle(b) == [n \in 1..Len(b) |-> Alphabet[b[n]]]

\* Most sequences over the alphabet are MustReject bundles.  All of them are kept up to length 2; of the
\* longer ones those where only the LAST action names a negative id that nobody creates (the actions
\* before it were served and have to leave no trace).  Every other bundle is kept.
Culprits(acts) ==
  {n \in 1..Len(acts) : \E x \in RefUses(acts[n]) :
      \A m \in 1..Len(acts) : x \notin Creates(acts[m], Target(acts[n].t, acts[n].col))}
Keep(b) == Len(b) <= 2 \/ Culprits(Bundle(b)) \subseteq {Len(b)}
AllIndexSeqs == {q \in UNION {[1..m -> 1..N] : m \in 1..MaxLen} : Keep(q)}

ASSUME "OUT_FILE" \in DOMAIN IOEnv
       => JsonSerialize(IOEnv.OUT_FILE,
            [doc |-> Doc0Rows, alphabet |-> Alphabet, bundles |-> SetToSeq(AllIndexSeqs)])

VARIABLE b
Init == b = <<>>
Next == Len(b) < MaxLen /\ \E i \in 1..N : b' = Append(b, i)
Spec == Init /\ [][Next]_b

Judged == b # <<>> /\ Keep(b)
SpecSane == Judged => Ok(Doc0, Bundle(b), RefOutcome(Doc0, Bundle(b)))

RefCells(doc) == UNION {UNION {{doc[t][id].r} \cup Range(doc[t][id].rl) : id \in DOMAIN doc[t]} : t \in Tables}
Resolved ==
  ~Judged \/
  LET acts == Bundle(b)
      r    == RunRef(Doc0, acts)
  IN Class(Doc0, acts) \in {"strict", "lenient"} =>
       /\ \A x \in RefCells(r.doc) : x >= 0
       /\ \A t \in Tables : \A x \in DOMAIN r.tmap[t] :
            /\ x < 0
            /\ \E n \in 1..Len(acts) : IsAdd(acts[n]) /\ acts[n].t = t /\
                 \E j \in 1..Len(acts[n].ids) : acts[n].ids[j] = x /\ r.rets[n][j] = r.tmap[t][x]

\* mutants of the reference outcome that the relation has to reject
Sharp ==
  ~Judged \/
  LET acts == Bundle(b)
      cls  == Class(Doc0, acts)
      o    == RefOutcome(Doc0, acts)
  IN /\ cls = "reject" => ~Ok(Doc0, acts, [o EXCEPT !.rej = FALSE,
                                            !.rets = [n \in 1..Len(acts) |-> [k |-> "none", ids |-> <<>>]]])
     /\ cls = "reject" => ~Ok(Doc0, acts, [o EXCEPT !.same = FALSE])
     /\ cls = "strict" => ~Ok(Doc0, acts, [rej |-> TRUE, same |-> TRUE, rets |-> <<>>, doc |-> Doc0])
     /\ cls \in {"strict", "lenient"} =>
          \* a reference cell written by the bundle keeps another value (here: 0 instead of the row)
          \A t \in Tables : \A id \in DOMAIN o.doc[t] :
            (id \notin DOMAIN Doc0[t] /\ o.doc[t][id].r > 0) =>
              ~Ok(Doc0, acts, [o EXCEPT !.doc[t][id].r = 0])
=============================================================================
