----------------------------- MODULE Trace_RowIds -----------------------------
(* Judges recorded histories of the real AddRecord / BulkAddRecord / ReplaceTableData user actions *)
(* (harness/fn_rowids.py) against RowIds!Clauses: every observed step must be a transition of the  *)
(* RowIds state machine from the table state observed before it.                                   *)
(* Cases: <<[inp |-> [rows, gone, steps |-> <<[kind, req |-> <<[k, v], ...>>], ...>>],            *)
(*           out |-> <<[exc, retk, ret, before, after, view, again, held, dig0, dig1], ...>>,      *)
(*           exc |-> ""]>>                                                                        *)
(* Verdicts: <<[i |-> case index, c |-> {failed clauses}, s |-> <<failed clauses of step 1, ...>>]>> *)
EXTENDS RowIds, TLC, Json, IOUtils
Cases == JsonDeserialize(IOEnv.TRACE_FILE)
N == Len(Cases)
VARIABLES i, bad

Outcome(ob) ==
  [rej |-> ob.exc # "", same |-> ob.dig0 = ob.dig1, hasids |-> ob.retk = "ids", ids |-> ob.ret,
   after |-> Range(ob.after), view |-> Range(ob.view), held |-> ob.held]

StepClauses(c, n) ==
  LET st == c.inp.steps[n]
      ob == c.out[n]
  IN Clauses(Range(ob.before), st.kind, st.req, Outcome(ob)) \cup
     \* the rows that now exist are a fact about the table, not about one fetch: a follow-up
     \* fetch_table shows the same rows, and the next step starts from them
     Mark(Range(ob.again) = Range(ob.after), "C27.stable") \cup
     Mark(n = 1 \/ Range(ob.before) = Range(c.out[n - 1].after), "C27.stable")

PerStep(c) ==
  IF c.exc # "" \/ Len(c.out) # Len(c.inp.steps) THEN <<{"C27.raised"}>>
  ELSE [n \in 1..Len(c.out) |-> StepClauses(c, n)]

Init == i = 0 /\ bad = <<>> /\ (N > 0 \/ JsonSerialize(IOEnv.OUT_FILE, <<>>))
Next ==
  /\ i < N
  /\ i' = i + 1
  /\ bad' = LET s == PerStep(Cases[i + 1])
                j == UNION {s[n] : n \in 1..Len(s)}
            IN IF j = {} THEN bad ELSE Append(bad, [i |-> i + 1, c |-> j, s |-> s])
  /\ (i' < N \/ JsonSerialize(IOEnv.OUT_FILE, bad'))
Spec == Init /\ [][Next]_<<i, bad>>
View == i
=============================================================================
