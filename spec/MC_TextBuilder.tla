--------------------------- MODULE MC_TextBuilder ---------------------------
(* Bounded design model for C37.  One state per builder tree.  Families (depth <= 2 over Text):   *)
(*   F1  Text                                   every text over {a, b} of length <= MaxLen          *)
(*   F2  Replacer(Text)                         the same texts, every set of <= 2 non-overlapping   *)
(*                                              patches, replacement "", "$" or "$$"                 *)
(*   F3  Replacer(Replacer(Text))               text abab.. of length <= MaxLen2; <= InP inner and   *)
(*                                              <= OutP outer patches for <<InP, OutP>> in Nest      *)
(*   F4  Combiner(parts), 1..MaxParts parts     part = "" | "$" | Text("" | "a" | "ab") |           *)
(*                                              Replacer(Text("" | "a" | "ab"), <= 1 patch)          *)
(*   F5  Replacer(Combiner(<= 2 parts))         parts = strings / Texts as above; <= CombP patches   *)
(*   F6  Combiner of Combiners                  <<Combiner(<= 2 parts), part>>, <<part, Combiner>>,  *)
(*                                              and (BothComb) <<Combiner, Combiner>>                *)
(* The input space is written to OUT_FILE together with the qualifying output ranges of every tree. *)
EXTENDS TextBuilder, Json, IOUtils, SequencesExt, FiniteSetsExt
CONSTANTS MaxLen, MaxLen2, Nest, MaxParts, CombP, BothComb

NestQuick    == {<<1, 1>>}
NestThorough == {<<2, 1>>, <<1, 2>>}
Repl == {<<>>, <<36>>, <<36, 36>>}
TextsUpTo(n) == UNION {[1..k -> {97, 98}] : k \in 0..n}
Pat(n) == [i \in 1..n |-> IF i % 2 = 1 THEN 97 ELSE 98]

T(v, t)  == [k |-> "T", text |-> t,    val |-> v, kids |-> <<>>,   patches |-> <<>>]
S(t)     == [k |-> "S", text |-> t,    val |-> 0, kids |-> <<>>,   patches |-> <<>>]
R(x, ps) == [k |-> "R", text |-> <<>>, val |-> 0, kids |-> <<x>>,  patches |-> ps]
C(xs)    == [k |-> "C", text |-> <<>>, val |-> 0, kids |-> xs,     patches |-> <<>>]

\* ascending sequences of at most k non-overlapping patches of a text of length m
P1(m) == {[s |-> s, e |-> e, n |-> n] : s \in 0..m, e \in 0..m, n \in Repl}
Singles(m) == {<<p>> : p \in {x \in P1(m) : x.s <= x.e}}
Pairs(m) == {<<p, q>> : p, q \in {x \in P1(m) : x.s <= x.e}}
PatchSeqs(m, k) ==
  {<<>>} \cup (IF k >= 1 THEN Singles(m) ELSE {})
         \cup (IF k >= 2 THEN {pq \in Pairs(m) : pq[1].e <= pq[2].s /\ ~(pq[1].s = pq[2].s /\ pq[1].e = pq[2].e)}
               ELSE {})

Over(x, k) == {R(x, ps) : ps \in PatchSeqs(Len(Out(x)), k)}

\* The families are given as small chunks S(key), key \in K: TLC never has to build (and sort) one
\* large set of deeply nested records.
F1   == {T(1, t) : t \in TextsUpTo(MaxLen)}
F2K  == TextsUpTo(MaxLen)
F2S(t) == Over(T(1, t), 2)
F3K(io) == UNION {Over(T(1, Pat(n)), io[1]) : n \in 0..MaxLen2}
F3S(io, x) == Over(x, io[2])

Small == {<<>>, <<97>>, <<97, 98>>}
\* parts are built with a dummy value and numbered by their position afterwards
StrParts == {S(<<>>), S(<<36>>)}
TxtParts == {T(9, t) : t \in Small}
RepParts == UNION {{R(T(9, t), ps) : ps \in PatchSeqs(Len(t), 1) \ {<<>>}} : t \in Small}
Parts == StrParts \cup TxtParts \cup RepParts
RECURSIVE Renum(_, _)
Renum(x, v) ==
  CASE x.k = "T" -> T(v, x.text)
    [] x.k = "S" -> x
    [] x.k = "R" -> R(Renum(x.kids[1], v), x.patches)
    [] x.k = "C" -> C([i \in 1..Len(x.kids) |-> Renum(x.kids[i], 10 * v + i)])
Number(xs) == [i \in 1..Len(xs) |-> Renum(xs[i], i)]
SeqsOf(P, n) == UNION {[1..k -> P] : k \in 1..n}

F4K == {<<n, p>> : n \in 1..MaxParts, p \in Parts}          \* <<number of parts, first part>>
F4S(key) == {C(Number(<<key[2]>> \o xs)) : xs \in [1..(key[1] - 1) -> Parts]}
Flat == {C(Number(xs)) : xs \in SeqsOf(StrParts \cup TxtParts, 2)}
F5K  == Flat
F5S(c) == Over(c, CombP)
F6 == {C(Number(<<c, p>>)) : c \in Flat, p \in StrParts \cup TxtParts}
      \cup {C(Number(<<p, c>>)) : c \in Flat, p \in StrParts \cup TxtParts}
      \cup (IF BothComb THEN {C(Number(<<c, d>>)) : c, d \in Flat} ELSE {})

IsInput(b) ==
  \/ b \in F1
  \/ \E t \in F2K : b \in F2S(t)
  \/ \E io \in Nest : \E x \in F3K(io) : b \in F3S(io, x)
  \/ \E key \in F4K : b \in F4S(key)
  \/ \E c \in F5K : b \in F5S(c)
  \/ b \in F6

AsInput(b) == [b |-> b, ranges |-> SetToSeq(QualRanges(b)), all |-> 0]
Ser(B) == SetToSeq({AsInput(b) : b \in B})
OverKeys(K, Chunk(_)) == LET ks == SetToSeq(K) IN FlattenSeq([i \in 1..Len(ks) |-> Ser(Chunk(ks[i]))])
F3Ser(io) == LET Chunk(x) == F3S(io, x) IN OverKeys(F3K(io), Chunk)
NestSeq == SetToSeq(Nest)
\* (trees that belong to two chunks of F3 are written twice; the harness removes the duplicates)
AllInputs ==
  Ser(F1) \o OverKeys(F2K, F2S) \o FlattenSeq([i \in 1..Len(NestSeq) |-> F3Ser(NestSeq[i])])
          \o OverKeys(F4K, F4S) \o OverKeys(F5K, F5S) \o Ser(F6)

ASSUME "OUT_FILE" \in DOMAIN IOEnv => JsonSerialize(IOEnv.OUT_FILE, AllInputs)

\* `judged` only moves the evaluation of the invariant from the (sequential) computation of the
\* initial states to the (parallel) successor computation
VARIABLES input, judged
Init == IsInput(input) /\ judged = FALSE
Next == ~judged /\ judged' = TRUE /\ UNCHANGED input
SpecSane ==
  judged =>
  /\ WellFormed(input)
  /\ Ok(AsInput(input), Ref(AsInput(input)))
  \* the reference is not accepted by accident: a shifted mapping is rejected
  /\ LET r == Ref(AsInput(input))
         P == {k \in 1..Len(r.maps) : r.maps[k].kind = "patch"}
     IN P # {} => LET k == CHOOSE x \in P : \A y \in P : x >= y
                  IN ~Ok(AsInput(input), [r EXCEPT !.maps[k].pe = @ + 1])
=============================================================================
