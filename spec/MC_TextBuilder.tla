--------------------------- MODULE MC_TextBuilder ---------------------------
(* Bounded design model for C37.  One state per builder tree.  Families (depth <= 2 over Text):   *)
(*   F1  Text                                   every text over {a, b} of length <= MaxLen          *)
(*   F2  Replacer(Text)                         the same texts, every set of <= 2 non-overlapping   *)
(*                                              patches, replacement "", "$" or "$$"                 *)
(*   F3  Replacer(Replacer(Text))               text abab.. of length <= MaxLen2; <= InP inner and   *)
(*                                              <= OutP outer patches for <<InP, OutP>> in Nest      *)
(*   F4  Combiner(parts), 1..MaxParts parts     part = "" | "$" | Text("" | "a" | "ab") |           *)
(*                                              Replacer(Text("" | "a" | "ab"), <= 1 patch)          *)
(*   F5  Replacer(Combiner(<= 2 parts))         parts = strings / Texts as above; <= CombP patches   *)
(*   F6  Combiner of Combiners                  <<Combiner(<= 2 parts), part>>, <<part, Combiner>>,  *)
(*                                              and (BothComb) <<Combiner, Combiner>>                *)
(* The input space is written to OUT_FILE together with the qualifying output ranges of every tree. *)
EXTENDS TextBuilder, Json, IOUtils, SequencesExt, FiniteSetsExt
CONSTANTS MaxLen, MaxLen2, Nest, MaxParts, CombP, BothComb

NestQuick    == {<<1, 1>>}
NestThorough == {<<2, 1>>, <<1, 2>>}
Repl == {<<>>, <<36>>, <<36, 36>>}
TextsUpTo(n) == UNION {[1..k -> {97, 98}] : k \in 0..n}
Pat(n) == [i \in 1..n |-> IF i % 2 = 1 THEN 97 ELSE 98]

T(v, t)  == [k |-> "T", text |-> t,    val |-> v, kids |-> <<>>,   patches |-> <<>>]
S(t)     == [k |-> "S", text |-> t,    val |-> 0, kids |-> <<>>,   patches |-> <<>>]
R(x, ps) == [k |-> "R", text |-> <<>>, val |-> 0, kids |-> <<x>>,  patches |-> ps]
C(xs)    == [k |-> "C", text |-> <<>>, val |-> 0, kids |-> xs,     patches |-> <<>>]

\* ascending sequences of at most k non-overlapping patches of a text of length m
P1(m) == {[s |-> s, e |-> e, n |-> n] : s \in 0..m, e \in 0..m, n \in Repl}
Singles(m) == {<<p>> : p \in {x \in P1(m) : x.s <= x.e}}
Pairs(m) == {<<p, q>> : p, q \in {x \in P1(m) : x.s <= x.e}}
PatchSeqs(m, k) ==
  {<<>>} \cup (IF k >= 1 THEN Singles(m) ELSE {})
         \cup (IF k >= 2 THEN {pq \in Pairs(m) : pq[1].e <= pq[2].s /\ ~(pq[1].s = pq[2].s /\ pq[1].e = pq[2].e)}
               ELSE {})

Over(x, k) == {R(x, ps) : ps \in PatchSeqs(Len(Out(x)), k)}

F1 == {T(1, t) : t \in TextsUpTo(MaxLen)}
F2 == UNION {Over(T(1, t), 2) : t \in TextsUpTo(MaxLen)}
F3 == UNION {UNION {UNION {Over(x, io[2]) : x \in Over(T(1, Pat(n)), io[1])} : n \in 0..MaxLen2} : io \in Nest}

Small == {<<>>, <<97>>, <<97, 98>>}
\* parts are built with value 0 and numbered by their position afterwards
StrParts == {S(<<>>), S(<<36>>)}
TxtParts == {T(9, t) : t \in Small}
RepParts == UNION {{R(T(9, t), ps) : ps \in PatchSeqs(Len(t), 1) \ {<<>>}} : t \in Small}
RECURSIVE Renum(_, _)
Renum(x, v) ==
  CASE x.k = "T" -> T(v, x.text)
    [] x.k = "S" -> x
    [] x.k = "R" -> R(Renum(x.kids[1], v), x.patches)
    [] x.k = "C" -> C([i \in 1..Len(x.kids) |-> Renum(x.kids[i], 10 * v + i)])
Number(xs) == [i \in 1..Len(xs) |-> Renum(xs[i], i)]
SeqsOf(P, n) == UNION {[1..k -> P] : k \in 1..n}

F4 == {C(Number(xs)) : xs \in SeqsOf(StrParts \cup TxtParts \cup RepParts, MaxParts)}
Flat == {C(Number(xs)) : xs \in SeqsOf(StrParts \cup TxtParts, 2)}
F5 == UNION {Over(c, CombP) : c \in Flat}
F6 == {C(Number(<<c, p>>)) : c \in Flat, p \in StrParts \cup TxtParts}
      \cup {C(Number(<<p, c>>)) : c \in Flat, p \in StrParts \cup TxtParts}
      \cup (IF BothComb THEN {C(Number(<<c, d>>)) : c, d \in Flat} ELSE {})

Valid == F1 \cup F2 \cup F3 \cup F4 \cup F5 \cup F6

AsInput(b) == [b |-> b, ranges |-> SetToSeq(QualRanges(b)), all |-> 0]

ASSUME /\ "OUT_FILE" \in DOMAIN IOEnv
       => JsonSerialize(IOEnv.OUT_FILE, SetToSeq({AsInput(b) : b \in Valid}))

\* `judged` only moves the evaluation of the invariant from the (sequential) computation of the
\* initial states to the (parallel) successor computation
VARIABLES input, judged
Init == input \in Valid /\ judged = FALSE
Next == ~judged /\ judged' = TRUE /\ UNCHANGED input
SpecSane ==
  judged =>
  /\ WellFormed(input)
  /\ Ok(AsInput(input), Ref(AsInput(input)))
  \* the reference is not accepted by accident: a shifted mapping is rejected
  /\ LET r == Ref(AsInput(input))
         P == {k \in 1..Len(r.maps) : r.maps[k].kind = "patch"}
     IN P # {} => LET k == CHOOSE x \in P : \A y \in P : x >= y
                  IN ~Ok(AsInput(input), [r EXCEPT !.maps[k].pe = @ + 1])
=============================================================================
