-------------------------------- MODULE Ident --------------------------------
(***************************************************************************)
(* C21 - generated identifiers are valid and unique                        *)
(* (sandbox/grist/identifiers.py: pick_table_ident, pick_col_ident,        *)
(* pick_col_ident_list).                                                   *)
(*                                                                         *)
(* TLC strings are atomic, so every name is a SEQUENCE OF CODE POINTS      *)
(* (naturals < 2^21).                                                      *)
(*                                                                         *)
(* An input is  [fn    : "table" | "col" | "list",                         *)
(*               reqs  : sequence of [none : BOOLEAN, s : name]            *)
(*                       (exactly one request for "table" and "col"),      *)
(*               avoid : set of existing names]                            *)
(* an output is a sequence of names, one per request.                      *)
(* Clauses(in, out) is the admissible-output RELATION of the property; it  *)
(* says nothing about HOW a name is sanitised or which suffix is chosen.   *)
(*                                                                         *)
(* Case-insensitive comparison is ASCII upper-casing: every chosen id is   *)
(* ASCII (clause C21.syntax), and existing names are ids chosen earlier.   *)
(* "Keyword" is Python's case-sensitive keyword.kwlist (as the engine's    *)
(* iskeyword): "IF" is an admissible id, "if" and "None" are not.          *)
(***************************************************************************)
EXTENDS Naturals, Sequences, FiniteSets

\* BEGIN GENERATED KEYWORDS (python3 checks/C21.py --regen; from keyword.kwlist of /venv/bin/python)
PyVersion == "3.12"
Keywords == {
  <<70, 97, 108, 115, 101>>,                 \* False
  <<78, 111, 110, 101>>,                     \* None
  <<84, 114, 117, 101>>,                     \* True
  <<97, 110, 100>>,                          \* and
  <<97, 115>>,                               \* as
  <<97, 115, 115, 101, 114, 116>>,           \* assert
  <<97, 115, 121, 110, 99>>,                 \* async
  <<97, 119, 97, 105, 116>>,                 \* await
  <<98, 114, 101, 97, 107>>,                 \* break
  <<99, 108, 97, 115, 115>>,                 \* class
  <<99, 111, 110, 116, 105, 110, 117, 101>>, \* continue
  <<100, 101, 102>>,                         \* def
  <<100, 101, 108>>,                         \* del
  <<101, 108, 105, 102>>,                    \* elif
  <<101, 108, 115, 101>>,                    \* else
  <<101, 120, 99, 101, 112, 116>>,           \* except
  <<102, 105, 110, 97, 108, 108, 121>>,      \* finally
  <<102, 111, 114>>,                         \* for
  <<102, 114, 111, 109>>,                    \* from
  <<103, 108, 111, 98, 97, 108>>,            \* global
  <<105, 102>>,                              \* if
  <<105, 109, 112, 111, 114, 116>>,          \* import
  <<105, 110>>,                              \* in
  <<105, 115>>,                              \* is
  <<108, 97, 109, 98, 100, 97>>,             \* lambda
  <<110, 111, 110, 108, 111, 99, 97, 108>>,  \* nonlocal
  <<110, 111, 116>>,                         \* not
  <<111, 114>>,                              \* or
  <<112, 97, 115, 115>>,                     \* pass
  <<114, 97, 105, 115, 101>>,                \* raise
  <<114, 101, 116, 117, 114, 110>>,          \* return
  <<116, 114, 121>>,                         \* try
  <<119, 104, 105, 108, 101>>,               \* while
  <<119, 105, 116, 104>>,                    \* with
  <<121, 105, 101, 108, 100>>                \* yield
}
\* END GENERATED KEYWORDS

------------------------------------------------------------------------------
\* Characters and names

IsUpper(c)  == c \in 65..90
IsLower(c)  == c \in 97..122
IsDigit(c)  == c \in 48..57
IsLetter(c) == IsUpper(c) \/ IsLower(c)
IsIdChar(c) == IsLetter(c) \/ IsDigit(c) \/ c = 95

\* ASCII [A-Za-z][A-Za-z0-9_]* : in particular no leading underscore or digit
Syntax(s) == /\ Len(s) > 0
             /\ IsLetter(s[1])
             /\ \A k \in 1..Len(s) : IsIdChar(s[k])

ValidIdent(s) == Syntax(s) /\ s \notin Keywords
TableIdent(s) == ValidIdent(s) /\ IsUpper(s[1])

Up(c)       == IF IsLower(c) THEN c - 32 ELSE c
Upper(s)    == [k \in 1..Len(s) |-> Up(s[k])]
UpperSet(S) == {Upper(s) : s \in S}

------------------------------------------------------------------------------
\* The relation

Min(a, b) == IF a <= b THEN a ELSE b

\* the request is "already valid" for the kind of id asked for
AlreadyValid(fn, r) ==
  /\ ~r.none
  /\ IF fn = "table" THEN TableIdent(r.s) ELSE ValidIdent(r.s)

\* ... and "unused": taken neither by an existing name nor by another id chosen in the same batch
\* (the property fixes no order within a batch, so no order is demanded here)
Unused(in, out, k) ==
  Upper(in.reqs[k].s) \notin
     (UpperSet(in.avoid) \cup {Upper(out[j]) : j \in (1..Len(out)) \ {k}})

Arity(in, out)   == Len(out) = Len(in.reqs)
SyntaxOk(in, out) == \A k \in 1..Len(out) : Syntax(out[k])
NoKeyword(in, out) == \A k \in 1..Len(out) : out[k] \notin Keywords
TableUpper(in, out) ==
  in.fn = "table" => \A k \in 1..Len(out) : Len(out[k]) > 0 => IsUpper(out[k][1])
AvoidOk(in, out) == \A k \in 1..Len(out) : Upper(out[k]) \notin UpperSet(in.avoid)
BatchOk(in, out) ==
  \A j, k \in 1..Len(out) : j < k => Upper(out[j]) # Upper(out[k])
KeepOk(in, out)  ==
  \A k \in 1..Min(Len(out), Len(in.reqs)) :
     (AlreadyValid(in.fn, in.reqs[k]) /\ Unused(in, out, k)) => out[k] = in.reqs[k].s

Clauses(in, out) ==
  (IF Arity(in, out)      THEN {} ELSE {"C21.arity"})       \cup
  (IF SyntaxOk(in, out)   THEN {} ELSE {"C21.syntax"})      \cup
  (IF NoKeyword(in, out)  THEN {} ELSE {"C21.keyword"})     \cup
  (IF TableUpper(in, out) THEN {} ELSE {"C21.table_upper"}) \cup
  (IF AvoidOk(in, out)    THEN {} ELSE {"C21.avoid"})       \cup
  (IF BatchOk(in, out)    THEN {} ELSE {"C21.batch"})       \cup
  (IF KeepOk(in, out)     THEN {} ELSE {"C21.keep"})

Ok(in, out) == Clauses(in, out) = {}

------------------------------------------------------------------------------
(***************************************************************************)
(* Reference solution.  Used (a) to show that the relation is satisfiable  *)
(* on every input of the bounded model, (b) to build targeted avoid sets   *)
(* (the names the reference solution would pick next) in MC_Ident.  It is  *)
(* NOT part of the judgement.  `decomp` maps the non-ASCII code points of  *)
(* the bounded alphabet to what NFKD + removal of combining marks leaves   *)
(* of them; any other non-identifier character becomes a separator.        *)
(***************************************************************************)
SEP == 0      \* marker for "not an identifier character" (U+0000 is one itself)

Img(c, decomp) ==
  IF c < 128 THEN (IF IsIdChar(c) THEN <<c>> ELSE <<SEP>>)
  ELSE IF c \in DOMAIN decomp THEN decomp[c] ELSE <<SEP>>

RECURSIVE Flat(_, _, _)
Flat(s, k, decomp) == IF k > Len(s) THEN <<>> ELSE Img(s[k], decomp) \o Flat(s, k + 1, decomp)

\* every maximal run of separators becomes one underscore
RECURSIVE Collapse(_, _)
Collapse(t, k) ==
  IF k > Len(t) THEN <<>>
  ELSE IF t[k] # SEP THEN <<t[k]>> \o Collapse(t, k + 1)
  ELSE IF k > 1 /\ t[k - 1] = SEP THEN Collapse(t, k + 1)
  ELSE <<95>> \o Collapse(t, k + 1)

RECURSIVE LStrip(_)
LStrip(t) == IF Len(t) > 0 /\ t[1] = 95 THEN LStrip(Tail(t)) ELSE t

RECURSIVE UnKeyword(_, _)
UnKeyword(t, prefix) == IF t \in Keywords THEN UnKeyword(prefix \o t, prefix) ELSE t

Sanitize(s, prefix, cap, decomp) ==
  LET a == LStrip(Collapse(Flat(s, 1, decomp), 1))
      b == IF Len(a) > 0 /\ IsDigit(a[1]) THEN prefix \o a ELSE a
      c == IF cap /\ Len(b) > 0 THEN <<Up(b[1])>> \o Tail(b) ELSE b
  IN IF b = <<>> THEN <<>> ELSE UnKeyword(c, prefix)

RECURSIVE Digits(_)
Digits(n) == IF n < 10 THEN <<48 + n>> ELSE Digits(n \div 10) \o <<48 + (n % 10)>>

\* first of base<n>, base<n+1>, ... not used (case-insensitively); `used` holds upper-cased names
RECURSIVE FirstFree(_, _, _)
FirstFree(base, used, n) ==
  IF Upper(base \o Digits(n)) \notin used THEN base \o Digits(n) ELSE FirstFree(base, used, n + 1)

AddSuffix(base, used, n) ==
  FirstFree(IF IsDigit(base[Len(base)]) THEN base \o <<95>> ELSE base, used, n)

\* A, B, ..., Z, AA, AB, ...
RECURSIVE LetterName(_)
LetterName(n) == IF n < 26 THEN <<65 + n>> ELSE LetterName((n \div 26) - 1) \o <<65 + (n % 26)>>
RECURSIVE FirstLetters(_, _)
FirstLetters(used, n) == IF LetterName(n) \notin used THEN LetterName(n) ELSE FirstLetters(used, n + 1)

TableWord == <<84, 97, 98, 108, 101>>     \* "Table"

PickOne(fn, r, used, decomp) ==
  LET base == Sanitize(IF r.none THEN <<>> ELSE r.s,
                       IF fn = "table" THEN <<84>> ELSE <<99>>, fn = "table", decomp)
  IN IF base = <<>>
     THEN (IF fn = "table" THEN FirstFree(TableWord, used, 1) ELSE FirstLetters(used, 0))
     ELSE IF Upper(base) \notin used THEN base ELSE AddSuffix(base, used, 2)

RECURSIVE RefFrom(_, _, _, _, _)
RefFrom(in, k, used, acc, decomp) ==
  IF k > Len(in.reqs) THEN acc
  ELSE LET p == PickOne(in.fn, in.reqs[k], used, decomp)
       IN RefFrom(in, k + 1, used \cup {Upper(p)}, Append(acc, p), decomp)

Ref(in, decomp) == RefFrom(in, 1, UpperSet(in.avoid), <<>>, decomp)

=============================================================================
