SPECIFICATION Spec
VIEW View
CHECK_DEADLOCK FALSE
CONSTANTS Depth = 2
          MaxActs = 2
          Fm0 = FALSE
          Abstract = FALSE
          FullFirst = FALSE
          Starts = {"two"}
          MaxRow = 3
          TwoCols = 1
INVARIANT TypeOK
INVARIANT SpecSane
