---------------------------- MODULE Trace_Trigger ----------------------------
(* Judges recorded histories of the real engine (harness/fn_trigger.py) against Trigger!Clauses:  *)
(* every observed bundle must be a step of the Trigger state machine from the table state         *)
(* observed before it.                                                                            *)
(* Cases: <<[inp |-> [cfg |-> <<[id, when, deps, fm], ...>>,                                      *)
(*                    steps |-> <<bundle, ...>>, bundle = <<[op, r, vals |-> <<[c, v]>>, bulk]>>], *)
(*           out |-> <<[exc, rows |-> <<[r, A, B, F, k |-> <<cell, ...>>], ...>>], ...>>,          *)
(*           exc |-> ""]>>                                                                        *)
(*   out[1] is the table after the harness loaded it, out[n + 1] the table after bundle n;        *)
(*   exc of out[n + 1] is the class of the exception bundle n raised ("" if none).                *)
(* Verdicts: <<[i |-> case index, c |-> {failed clauses},                                         *)
(*             s |-> <<{[r, col, c] : failures of step 1}, ...>>]>>                                *)
EXTENDS Trigger, TLC, Json, IOUtils
Cases == JsonDeserialize(IOEnv.TRACE_FILE)
N == Len(Cases)
VARIABLES i, bad

StepClauses(c, n) ==
  IF c.out[n + 1].exc # "" THEN {Fail(0, "", "C15.raised")}
  ELSE Failures(c.inp.cfg, c.out[n].rows, c.inp.steps[n], c.out[n + 1].rows)

PerStep(c) ==
  IF c.exc # "" \/ Len(c.out) # Len(c.inp.steps) + 1 THEN <<{Fail(0, "", "C15.raised")}>>
  ELSE [n \in 1..Len(c.inp.steps) |-> StepClauses(c, n)]

Verdict(k, s) ==
  LET j == {f.c : f \in UNION {s[n] : n \in 1..Len(s)}}
  IN IF j = {} THEN <<>> ELSE <<[i |-> k, c |-> j, s |-> s]>>

Init == i = 0 /\ bad = <<>> /\ (N > 0 \/ JsonSerialize(IOEnv.OUT_FILE, <<>>))
Next ==
  /\ i < N
  /\ i' = i + 1
  /\ bad' = LET V(s) == Verdict(i + 1, s) IN bad \o Eager(PerStep(Cases[i + 1]), V)
  /\ (i' < N \/ JsonSerialize(IOEnv.OUT_FILE, bad'))
Spec == Init /\ [][Next]_<<i, bad>>
View == i
=============================================================================
