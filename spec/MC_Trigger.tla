------------------------------ MODULE MC_Trigger ------------------------------
(* Bounded design model of Trigger: TLC drives the state machine through histories of at most     *)
(* Depth bundles for every configuration in Configs, starting from every table in Starts, always  *)
(* taking the reference outcome (one evaluation at the end of a bundle where one is due).         *)
(*                                                                                                *)
(*   Configs  one trigger column K: DEFAULT x every recalcDeps \subseteq {A, B, F, K},            *)
(*            NEVER / MANUAL_UPDATES x {{}, {A, K}} (recalcDeps must be ignored), with the        *)
(*            formula that reads A, B, F (fm = 1), and if Fm0 four of them with the plain formula; *)
(*            two trigger columns K, L: the first TwoCols pairs of Pairs2                         *)
(*   bundles  one action out of Single(state), or a pair <<a1, a2>> with a1 from First(state) and *)
(*            a2 from the reduced alphabet Red(state after a1), or one of a few pairs with a      *)
(*            schema change (SchemaPairs)                                                         *)
(*   Single   UpdateRecord of a row with A \in {absent, same value, other value} x                *)
(*            B \in {absent, other value} x every subset of trigger columns supplied (value 100); *)
(*            AddRecord of a row id not in the table (the least unused one, and max + 1) with     *)
(*            A \in {absent, 1} x every subset of trigger columns supplied; RemoveRecord of a     *)
(*            row; RenameColumn A; ModifyColumn A type                                            *)
(*                                                                                                *)
(*            (bundles with schema changes are restricted, see Bundles)                           *)
(*   bound    at most Depth bundles and at most MaxActs user actions in a history                 *)
(*                                                                                                *)
(* With Abstract = TRUE the VIEW identifies states that agree on configuration, schema flags,     *)
(* rows, A, B, on which trigger cells hold the suppliable value, and on the number of bundles and *)
(* actions so far: TLC then executes every bundle from ONE history to each such state (transition *)
(* coverage; breadth-first with one worker => deterministic); with Abstract = FALSE every history *)
(* of the bound is executed.  The environment variables C15_PART / C15_PARTS split the            *)
(* configurations over several TLC processes.                                                     *)
(*                                                                                                *)
(* SpecSane: the reference outcome of every step into a new state is admissible, so the relation  *)
(* is satisfiable there.  The history that leads to a transition is printed as one JSON line for  *)
(* the harness to replay on the engine.                                                           *)
EXTENDS Trigger, TLC, Json, IOUtils, SequencesExt, FiniteSetsExt
CONSTANTS Depth, MaxActs, Fm0, Abstract, FullFirst, Starts, MaxRow, TwoCols

SUPPLY == 100

(* ---- configurations --------------------------------------------------------------------------- *)
Kc(id, when, deps, fm) == [id |-> id, when |-> when, deps |-> SetToSeq(deps), fm |-> fm]
Configs1 ==
  {<<Kc("K", DEFAULT, d, 1)>> : d \in SUBSET {"A", "B", "F", "K"}} \cup
  {<<Kc("K", w, d, 1)>> : w \in {NEVER, MANUAL}, d \in {{}, {"A", "K"}}} \cup
  (IF Fm0 THEN {<<Kc("K", DEFAULT, {}, 0)>>, <<Kc("K", DEFAULT, {"A"}, 0)>>,
                <<Kc("K", DEFAULT, {"F", "K"}, 0)>>, <<Kc("K", MANUAL, {}, 0)>>}
   ELSE {})
Pairs2 ==
  <<<<Kc("K", DEFAULT, {"A"}, 1),      Kc("L", MANUAL, {}, 1)>>,
    <<Kc("K", DEFAULT, {"A", "K"}, 1), Kc("L", DEFAULT, {"F"}, 1)>>,
    <<Kc("K", MANUAL, {}, 1),          Kc("L", NEVER, {}, 1)>>,
    <<Kc("K", DEFAULT, {"B"}, 1),      Kc("L", DEFAULT, {"A", "B"}, 0)>>,
    <<Kc("K", MANUAL, {}, 0),          Kc("L", DEFAULT, {"L"}, 1)>>,
    <<Kc("K", DEFAULT, {"F"}, 1),      Kc("L", MANUAL, {"A"}, 1)>>>>
Configs2 == {Pairs2[i] : i \in 1..TwoCols}         \* the first TwoCols pairs
AllConfigs == SetToSeq(Configs1 \cup Configs2)
Part    == IF "C15_PART" \in DOMAIN IOEnv THEN atoi(IOEnv.C15_PART) ELSE 0
Parts   == IF "C15_PARTS" \in DOMAIN IOEnv THEN atoi(IOEnv.C15_PARTS) ELSE 1
Configs == {AllConfigs[i] : i \in {n \in 1..Len(AllConfigs) : n % Parts = Part}}

(* ---- start tables (what the harness loads; the engine's own state after loading is observed) --- *)
StartTable(name, n) ==
  CASE name = "two"   -> <<[r |-> 1, A |-> 1, B |-> 1, F |-> 10, k |-> [j \in 1..n |-> 5]],
                           [r |-> 2, A |-> 2, B |-> 1, F |-> 20, k |-> [j \in 1..n |-> 7]]>>
    [] name = "one"   -> <<[r |-> 2, A |-> 1, B |-> 2, F |-> 10, k |-> [j \in 1..n |-> SUPPLY]]>>
    [] name = "empty" -> <<>>

(* ---- alphabets -------------------------------------------------------------------------------- *)
Act(op, r, vals) == [op |-> op, r |-> r, vals |-> vals, bulk |-> 0]
Other(v)         == IF v = 1 THEN 2 ELSE 1
One(c, v)        == <<[c |-> c, v |-> v]>>
\* every subset of the trigger columns, supplied with SUPPLY, as a vals sequence
KParts(cfg) ==
  IF Len(cfg) = 1 THEN {<<>>, One(cfg[1].id, SUPPLY)}
  ELSE {<<>>, One(cfg[1].id, SUPPLY), One(cfg[2].id, SUPPLY)} \cup
       (IF FullFirst THEN {One(cfg[1].id, SUPPLY) \o One(cfg[2].id, SUPPLY)} ELSE {})

UpdVals(cfg, row) ==
  {a \o b \o k : a \in {<<>>, One("A", row.A), One("A", Other(row.A))},
                 b \in {<<>>, One("B", Other(row.B))},
                 k \in KParts(cfg)} \ {<<>>}
AddVals(cfg) == {a \o k : a \in {<<>>, One("A", 1)}, k \in KParts(cfg)}
Max0(S)      == IF S = {} THEN 0 ELSE CHOOSE m \in S : \A x \in S : x <= m
NewIds(obs)  == LET rows == RowsOf(obs)
                    free == (1..MaxRow) \ rows
                IN IF free = {} THEN {}
                   ELSE {CHOOSE m \in free : \A x \in free : m <= x} \cup ({Max0(rows) + 1} \cap free)
Schema       == {Act("Ren", 0, <<>>), Act("Mod", 0, <<>>)}

Single(cfg, obs) ==
  UNION {{Act("Upd", obs[i].r, v) : v \in UpdVals(cfg, obs[i])} : i \in 1..Len(obs)} \cup
  {Act("Add", r, v) : r \in NewIds(obs), v \in AddVals(cfg)} \cup
  {Act("Rem", obs[i].r, <<>>) : i \in 1..Len(obs)} \cup Schema

Red(cfg, obs) ==
  UNION {{Act("Upd", obs[i].r, One("A", Other(obs[i].A))), Act("Upd", obs[i].r, One("B", Other(obs[i].B))),
          Act("Rem", obs[i].r, <<>>)} \cup
         {Act("Upd", obs[i].r, One(cfg[j].id, SUPPLY)) : j \in 1..Len(cfg)} : i \in 1..Len(obs)} \cup
  {Act("Add", r, One("A", 1)) : r \in NewIds(obs)}

First(cfg, obs) == IF FullFirst THEN Single(cfg, obs) \ Schema ELSE Red(cfg, obs)

SchemaPairs(cfg, obs) ==
  IF Len(obs) = 0 THEN {}
  ELSE LET row == obs[1]
           upA == Act("Upd", row.r, One("A", Other(row.A)))
           upK == Act("Upd", row.r, One("A", Other(row.A)) \o One(cfg[1].id, SUPPLY))
       IN {<<s, upA>> : s \in Schema} \cup {<<upA, s>> : s \in Schema} \cup {<<upK, s>> : s \in Schema}

HasOp(bundle, ops) == \E n \in 1..Len(bundle) : bundle[n].op \in ops
\* a single action that writes at most one cell
Simple(bundle)     == Len(bundle) = 1 /\ Len(bundle[1].vals) <= 1 /\ ~IsSchema(bundle[1])

\* prev: the bundle before (<<>> at the start of a history); room: user actions left in the history.
\* Schema changes are expensive in the engine (RenameColumn ~50-100 ms): a bundle with RenameColumn
\* only starts a history, one with ModifyColumn starts it or follows a Simple bundle, and a bundle
\* with a schema change is only followed by single actions of the reduced alphabet.
\* late: from the third bundle of a history on, single actions come from the reduced alphabet.
Bundles(cfg, obs, prev, room, late) ==
  LET singles == {<<a>> : a \in IF late THEN Red(cfg, obs) ELSE Single(cfg, obs)}
      pairs   == IF room < 2 THEN {}
                 ELSE UNION {{<<a1, a2>> : a2 \in Red(cfg, RefAfter(cfg, obs, <<a1>>))} : a1 \in First(cfg, obs)} \cup
                      SchemaPairs(cfg, obs)
  IN IF prev = <<>> THEN singles \cup pairs
     ELSE IF HasOp(prev, {"Ren", "Mod"}) THEN {<<a>> : a \in Red(cfg, obs)}
     ELSE {b \in singles \cup pairs : ~HasOp(b, {"Ren"}) /\ (HasOp(b, {"Mod"}) => Simple(prev))}

(* ---- the machine ------------------------------------------------------------------------------ *)
VARIABLES cfg, start, obs, sch, hist, acts, last
vars == <<cfg, start, obs, sch, hist, acts, last>>

Parity(bundle, op) == Cardinality({n \in 1..Len(bundle) : bundle[n].op = op}) % 2

Init == /\ cfg \in Configs
        /\ start \in Starts
        /\ obs = StartTable(start, Len(cfg))
        /\ sch = <<0, 0>>
        /\ hist = <<>>
        /\ acts = 0
        /\ last = <<>>

Next ==
  /\ Len(hist) < Depth /\ acts < MaxActs
  /\ \E bundle \in Bundles(cfg, obs, IF hist = <<>> THEN <<>> ELSE hist[Len(hist)], MaxActs - acts, Len(hist) >= 2) :
       /\ obs' = RefAfter(cfg, obs, bundle)
       /\ sch' = <<(sch[1] + Parity(bundle, "Ren")) % 2, (sch[2] + Parity(bundle, "Mod")) % 2>>
       /\ hist' = Append(hist, bundle)
       /\ acts' = acts + Len(bundle)
       /\ last' = <<[before |-> obs, bundle |-> bundle]>>
       /\ PrintT(ToJson([cfg |-> cfg, start |-> start, init |-> StartTable(start, Len(cfg)), steps |-> hist']))
  /\ UNCHANGED <<cfg, start>>
Spec == Init /\ [][Next]_vars

AbsRow(row) == [r |-> row.r, A |-> row.A, B |-> row.B, e |-> [j \in 1..Len(row.k) |-> row.k[j] = SUPPLY]]
LastKind == IF hist = <<>> THEN 0 ELSE LET b == hist[Len(hist)] IN IF HasOp(b, {"Ren", "Mod"}) THEN 1 ELSE IF Simple(b) THEN 2 ELSE 3
View == IF Abstract THEN <<cfg, start, sch, [i \in 1..Len(obs) |-> AbsRow(obs[i])], Len(hist), acts, LastKind>> ELSE vars

\* the reference outcome of the last step is admissible: the relation is satisfiable there
SpecSane == last = <<>> \/ Step(cfg, last[1].before, last[1].bundle, obs)

\* a reachable state is a table of the model: row ids ascending, F = 10 * A
TypeOK == /\ \A i \in 1..Len(obs) : obs[i].F = 10 * obs[i].A /\ obs[i].r \in 1..MaxRow
          /\ \A i \in 1..(Len(obs) - 1) : obs[i].r < obs[i + 1].r
=============================================================================
