------------------------------- MODULE Convert -------------------------------
(***************************************************************************)
(* C22 - cell value conversion is total and idempotent                      *)
(* (sandbox/grist/usertypes.py: BaseColumnType.convert, do_convert and      *)
(* is_right_type of every documented column type).                          *)
(*                                                                          *)
(* This is a THIN specification: it does not model what a conversion        *)
(* computes, only the membership relation "value v belongs to column type   *)
(* t" and the contract of convert() stated by the property.                 *)
(*                                                                          *)
(* A value is described by a uniform record (written judgement-free by the  *)
(* worker from type(value) and objtypes.encode_object(value)):              *)
(*   k   kind: the first builtin / engine class the value is an instance of *)
(*       "none" "bool" "int" "float" "str" "bytes" "error" (RaisedException)*)
(*       "alttext" "datetime" "date" "record" "recordset" "tuple" "list"    *)
(*       "dict" "other";  "absent" = no value (the call raised)             *)
(*   x   type(value) IS that builtin class (FALSE for a subclass instance)  *)
(*   sh  for kind "int": -2^31 <= value < 2^31                              *)
(*   rl  the value is an instance of objtypes.RecordList                    *)
(*   el  for kinds "list"/"tuple": <<[k, x, sh]>> of the elements           *)
(*   tok ASCII token of encode_object(value) (harness/tokens.py)            *)
(***************************************************************************)
EXTENDS Naturals, Sequences, FiniteSets

Types == {"Text", "Numeric", "Int", "Bool", "Date", "DateTime", "Choice", "ChoiceList", "Ref",
          "RefList", "Attachments", "Any", "Id", "ManualSortPos", "PositionNumber"}

Kinds == {"none", "bool", "int", "float", "str", "bytes", "error", "alttext", "datetime", "date",
          "record", "recordset", "tuple", "list", "dict", "other"}

IsNone(v)   == v.k = "none"
\* type(value) in (float, int): exact classes only, so neither bool nor subclasses
ExactNum(v) == v.k \in {"int", "float"} /\ v.x
\* isinstance(value, (float, int)): bool is a subclass of int, subclasses count
AnyNum(v)   == v.k \in {"int", "float", "bool"}
\* type(value) is int and is_int_short(value)
ShortInt(v) == v.k = "int" /\ v.x /\ v.sh
IsStr(v)    == v.k = "str"
AllEl(v, P(_)) == \A i \in 1..Len(v.el) : P(v.el[i])

\* <Type>.is_right_type(value), one line per class of usertypes.py
RightType(t, v) ==
  CASE t \in {"Text", "Choice"}  -> v.k \in {"str", "none"}          \* isinstance(value, (str, NoneType))
    [] t = "Numeric"             -> IsNone(v) \/ ExactNum(v)         \* type(value) in (float, int, NoneType)
    [] t = "Int"                 -> IsNone(v) \/ ShortInt(v)
    [] t = "Bool"                -> v.k \in {"bool", "none"}         \* isinstance(value, (bool, NoneType))
    [] t \in {"Date", "DateTime"} -> IsNone(v) \/ AnyNum(v)          \* isinstance(value, (float, int, NoneType))
    [] t = "ChoiceList"          -> IsNone(v) \/ (v.k \in {"tuple", "list"} /\ AllEl(v, IsStr))
    [] t \in {"PositionNumber", "ManualSortPos"} -> ExactNum(v)      \* like Numeric, but no None
    [] t \in {"Id", "Ref"}       -> ShortInt(v)
    [] t \in {"RefList", "Attachments"} ->
         IsNone(v) \/ v.rl \/ (v.k = "list" /\ AllEl(v, ShortInt))
    [] t = "Any"                 -> TRUE

\* What the property allows convert(in) to return:
\*   a value of that type, the unchanged error object, or an alt-text string
Admissible(t, in, out, same) ==
  \/ RightType(t, out)
  \/ in.k = "error" /\ same
  \/ IsStr(out)

Decidable(c) ==
  /\ c.t \in Types
  /\ c.inp.k \in Kinds
  /\ c.exc = "" => c.out.k \in Kinds
  /\ (c.exc = "" /\ c.exc2 = "") => c.out2.k \in Kinds

(* A case is one pair of real calls:  out = T.convert(inp),  out2 = T.convert(out)            *)
(*   [t, inp, out, out2 : descriptors, same = (out is inp), same2 = (out2 is out),           *)
(*    exc, exc2 : exception class name or ""]                                                 *)
Clauses(c) ==
  IF ~Decidable(c) THEN {"C22.undecidable"}
  ELSE IF c.exc # "" THEN {"C22.total"}
  ELSE (IF Admissible(c.t, c.inp, c.out, c.same) THEN {} ELSE {"C22.kind"})
       \cup
       (IF c.exc2 # "" THEN {"C22.total"}
        ELSE (IF Admissible(c.t, c.out, c.out2, c.same2) THEN {} ELSE {"C22.kind"})
             \cup (IF c.out2.tok = c.out.tok THEN {} ELSE {"C22.idempotent"}))

Ok(c) == Clauses(c) = {}

\* A witness that the relation is satisfiable for every input (NOT a model of do_convert): errors and
\* right-type values are returned unchanged, everything else becomes an alt-text string.
AltStr == [k |-> "str", x |-> TRUE, sh |-> FALSE, rl |-> FALSE, el |-> <<>>, tok |-> "s<alt>"]
RefOut(t, v) == IF v.k = "error" \/ RightType(t, v) THEN v ELSE AltStr
Ref(t, v) ==
  LET o == RefOut(t, v)
  IN [t |-> t, inp |-> v, out |-> o, out2 |-> o, same |-> (o = v), same2 |-> TRUE, exc |-> "", exc2 |-> ""]

=============================================================================
