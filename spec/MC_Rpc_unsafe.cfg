INIT Init
NEXT Next
CONSTANTS MaxLen = 2
          MarshalTotal = FALSE
          Revert = FALSE
INVARIANT Atomic
CHECK_DEADLOCK TRUE
