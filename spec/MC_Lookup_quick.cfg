SPECIFICATION Spec
CHECK_DEADLOCK FALSE
CONSTANTS Fams <- QuickFams
INVARIANT SpecSane
INVARIANT OrderSane
INVARIANT ModelSane
