INIT Init
CHECK_DEADLOCK FALSE
NEXT Next
CONSTANTS MaxRows = 3
          MaxLen = 2
          RK1 <- RK1Std
          RK2 <- RK2Std
          CK1 <- CK1Std
          CK2 <- CK2Std
          DefOnMany = {"-", "all"}
INVARIANT SpecSane
INVARIANT RejectSane
