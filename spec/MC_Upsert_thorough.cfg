INIT Init
NEXT Next
CHECK_DEADLOCK FALSE
CONSTANTS MaxRows = 3
          MaxLen = 2
          KeyRows <- KeyRows4
          RK1 <- RK1Std
          RK1T <- RK1Min
          RK2 <- RK2Std
          CK1 <- CK1Std
          CK2 <- CK2Min
          DefOnMany = {"-", "all"}
INVARIANT SpecSane
INVARIANT RejectSane
