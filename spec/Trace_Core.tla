----------------------------- MODULE Trace_Core -----------------------------
(***************************************************************************)
(* Judges what the real engine reported for (state, action) cases of       *)
(* Core.tla (harness/fn_core.py).  A case is                               *)
(*   [S, a, fail, exc, uexc, before, after, undo]                          *)
(* with S / a as MC_Core exported them and before / after / undo the       *)
(* engine's tables after loading S, after the action, after its undo:      *)
(*   [p : <<[r, name, total, orders]>>, o : <<[r, who, kind, amt, wname]>>,*)
(*    s : <<[kind, count, amt, total, group]>>, odd]                       *)
(* The property predicates of Core.tla are evaluated on the OBSERVED data  *)
(* and the observed derived values (they do not depend on the model's      *)
(* expectation of the action's effect); the expectation Core!Step is used  *)
(* for rejected actions (C04), for undo (C01) and - as notes, "Core.*",    *)
(* which are not verdicts on any listed property - for the effect itself.  *)
(***************************************************************************)
EXTENDS Core, TLC, Json, IOUtils

Cases == JsonDeserialize(IOEnv.TRACE_FILE)
N == Len(Cases)
VARIABLES i, bad
SeqRange(s) == {s[k] : k \in 1..Len(s)}

\* ---- observation -> (data state, derived values) ------------------------
PRow(X, r) == CHOOSE row \in SeqRange(X.p) : row.r = r
ORow(X, r) == CHOOSE row \in SeqRange(X.o) : row.r = r
PIdsOf(X) == {row.r : row \in SeqRange(X.p)}
OIdsOf(X) == {row.r : row \in SeqRange(X.o)}

\* row ids unique and inside the model's bounds, nothing unreadable
Within(X) == /\ X.odd = ""
             /\ Cardinality(PIdsOf(X)) = Len(X.p) /\ PIdsOf(X) \subseteq PIds
             /\ Cardinality(OIdsOf(X)) = Len(X.o) /\ OIdsOf(X) \subseteq OIds

ToState(X) ==
  [p |-> [r \in PIds |-> IF r \in PIdsOf(X) THEN [ex |-> TRUE, name |-> PRow(X, r).name] ELSE NoP],
   o |-> [r \in OIds |-> IF r \in OIdsOf(X)
                         THEN [ex |-> TRUE, who |-> ORow(X, r).who, kind |-> ORow(X, r).kind, amt |-> ORow(X, r).amt]
                         ELSE NoO]]

ToDerived(X) ==
  [orders  |-> [r \in PIdsOf(X) |-> SeqRange(PRow(X, r).orders)],
   total   |-> [r \in PIdsOf(X) |-> PRow(X, r).total],
   wname   |-> [r \in OIdsOf(X) |-> ORow(X, r).wname],
   summary |-> {[kind |-> g.kind, group |-> SeqRange(g.group), count |-> g.count, amt |-> g.amt] : g \in SeqRange(X.s)}]

\* no list with a repeated element, no two summary rows for one group
NoRepeats(X) == /\ \A row \in SeqRange(X.p) : Cardinality(SeqRange(row.orders)) = Len(row.orders)
                /\ \A g \in SeqRange(X.s) : Cardinality(SeqRange(g.group)) = Len(g.group)
                /\ Cardinality({g.kind : g \in SeqRange(X.s)}) = Len(X.s)

StateClauses(X, ph) ==
  IF ~Within(X) THEN {"Core.scope@" \o ph}
  ELSE LET S == ToState(X)  D == ToDerived(X) IN
       (IF NoDangling(S) THEN {} ELSE {"C10.model@" \o ph})
       \cup (IF Symmetric(S, D) /\ \A row \in SeqRange(X.p) : Cardinality(SeqRange(row.orders)) = Len(row.orders)
             THEN {} ELSE {"C11.model@" \o ph})
       \cup (IF SummaryExact(S, D) /\ NoRepeats(X) THEN {} ELSE {"C12.model@" \o ph})
       \cup (IF FormulasFresh(S, D) /\ \A g \in SeqRange(X.s) : g.total = SumAmt(S, SeqRange(g.group) \cap OEx(S))
             THEN {} ELSE {"C05.model@" \o ph})

\* everything the engine reported, order-free
Canon(X) == [p |-> {[r |-> row.r, name |-> row.name, total |-> row.total, orders |-> SeqRange(row.orders)] : row \in SeqRange(X.p)},
             o |-> SeqRange(X.o),
             s |-> {[kind |-> g.kind, count |-> g.count, amt |-> g.amt, total |-> g.total, group |-> SeqRange(g.group)] : g \in SeqRange(X.s)},
             odd |-> X.odd]

ModelState(c) == [p |-> [r \in PIds |-> c.S.p[r]], o |-> [r \in OIds |-> c.S.o[r]]]
ModelAct(c)   == [op |-> c.a.op, r |-> c.a.r, v |-> c.a.v, s |-> c.a.s, l |-> SeqRange(c.a.l)]

Judge(c) ==
  \* the engine refused the ordinary removals / additions that bring it to the state: nothing to judge
  \* (a note, not a verdict; the harness gives up only if no case at all can be loaded)
  IF c.fail # "" THEN {"Core.load-failed"}
  ELSE LET S0 == ModelState(c)  a == ModelAct(c)
           loaded == Within(c.before) /\ ToState(c.before) = S0
           st == Step(S0, a) IN
    (IF loaded THEN {} ELSE {"Core.load-mismatch"})
    \cup StateClauses(c.before, "load")
    \cup (IF c.exc # ""
          THEN (IF Canon(c.after) = Canon(c.before) THEN {} ELSE {"C04.model"})
               \cup (IF loaded /\ Applicable(S0, a) /\ st.ok THEN {"Core.rejected"} ELSE {})
          ELSE StateClauses(c.after, "step")
               \* (an action the model refuses may also be accepted as a no-op: an update of a missing
               \*  record with the default value is trimmed away before anything looks for the record)
               \cup (IF ~loaded \/ ~Applicable(S0, a) THEN {}
                     ELSE IF Within(c.after) /\ ToState(c.after) = st.s THEN {}
                     ELSE IF st.ok THEN {"Core.effect"} ELSE {"Core.accepted"})
               \cup (IF c.uexc = "" /\ Canon(c.undo) = Canon(c.before) THEN {} ELSE {"C01.model"}))

Init == i = 0 /\ bad = <<>> /\ (N > 0 \/ JsonSerialize(IOEnv.OUT_FILE, <<>>))
Next ==
  /\ i < N
  /\ i' = i + 1
  /\ bad' = LET j == Judge(Cases[i + 1])
            IN IF j = {} THEN bad ELSE Append(bad, [i |-> i + 1, c |-> j])
  /\ (i' < N \/ JsonSerialize(IOEnv.OUT_FILE, bad'))
Spec == Init /\ [][Next]_<<i, bad>>
View == i
=============================================================================
