----------------------------- MODULE Trace_Core -----------------------------
(***************************************************************************)
(* Judges what the real engine reported for (state, action) cases of       *)
(* Core.tla (harness/fn_core.py).  A case is                               *)
(*   [S, as, fail, exc, uexc, before, after, undo]                         *)
(* with S and the one or two actions `as` of the bundle as MC_Core exported them and before / after / undo the       *)
(* engine's tables after loading S, after the action, after its undo:      *)
(*   [p : <<[r, name, total, orders]>>, o : <<[r, who, kind, amt, wname]>>,*)
(*    s : <<[kind, count, amt, total, group]>>, odd]                       *)
(* The property predicates of Core.tla are evaluated on the OBSERVED data  *)
(* and the observed derived values (they do not depend on the model's      *)
(* expectation of the action's effect); the expectation Core!Step is used  *)
(* for rejected actions (C04), for undo (C01) and - as notes, "Core.*",    *)
(* which are not verdicts on any listed property - for the effect itself.  *)
(***************************************************************************)
EXTENDS Core, TLC, Json, IOUtils

Cases == JsonDeserialize(IOEnv.TRACE_FILE)
N == Len(Cases)
VARIABLES i, bad
SeqRange(s) == {s[k] : k \in 1..Len(s)}

\* ---- observation -> (data state, derived values) ------------------------
PRow(X, r) == CHOOSE row \in SeqRange(X.p) : row.r = r
ORow(X, r) == CHOOSE row \in SeqRange(X.o) : row.r = r
PIdsOf(X) == {row.r : row \in SeqRange(X.p)}
OIdsOf(X) == {row.r : row \in SeqRange(X.o)}

\* row ids unique and inside the model's bounds, nothing unreadable
Within(X) == /\ X.odd = ""
             /\ Cardinality(PIdsOf(X)) = Len(X.p) /\ PIdsOf(X) \subseteq PIds
             /\ Cardinality(OIdsOf(X)) = Len(X.o) /\ OIdsOf(X) \subseteq OIds

ToState(X) ==
  [p |-> [r \in PIds |-> IF r \in PIdsOf(X) THEN [ex |-> TRUE, name |-> PRow(X, r).name] ELSE NoP],
   o |-> [r \in OIds |-> IF r \in OIdsOf(X)
                         THEN [ex |-> TRUE, who |-> ORow(X, r).who, kind |-> ORow(X, r).kind, amt |-> ORow(X, r).amt]
                         ELSE NoO]]

ToDerived(X) ==
  [orders  |-> [r \in PIdsOf(X) |-> SeqRange(PRow(X, r).orders)],
   total   |-> [r \in PIdsOf(X) |-> PRow(X, r).total],
   wname   |-> [r \in OIdsOf(X) |-> ORow(X, r).wname],
   summary |-> {[kind |-> g.kind, group |-> SeqRange(g.group), count |-> g.count, amt |-> g.amt] : g \in SeqRange(X.s)}]

\* no list with a repeated element, no two summary rows for one group
NoRepeats(X) == /\ \A row \in SeqRange(X.p) : Cardinality(SeqRange(row.orders)) = Len(row.orders)
                /\ \A g \in SeqRange(X.s) : Cardinality(SeqRange(g.group)) = Len(g.group)
                /\ Cardinality({g.kind : g \in SeqRange(X.s)}) = Len(X.s)

StateClauses(X, ph) ==
  IF ~Within(X) THEN {"Core.scope@" \o ph}
  ELSE LET S == ToState(X)  D == ToDerived(X) IN
       (IF NoDangling(S) THEN {} ELSE {"C10.model@" \o ph})
       \cup (IF Symmetric(S, D) /\ \A row \in SeqRange(X.p) : Cardinality(SeqRange(row.orders)) = Len(row.orders)
             THEN {} ELSE {"C11.model@" \o ph})
       \cup (IF SummaryExact(S, D) /\ NoRepeats(X) THEN {} ELSE {"C12.model@" \o ph})
       \cup (IF FormulasFresh(S, D) /\ \A g \in SeqRange(X.s) : g.total = SumAmt(S, SeqRange(g.group) \cap OEx(S))
             THEN {} ELSE {"C05.model@" \o ph})

\* everything the engine reported, order-free
Canon(X) == [p |-> {[r |-> row.r, name |-> row.name, total |-> row.total, orders |-> SeqRange(row.orders)] : row \in SeqRange(X.p)},
             o |-> SeqRange(X.o),
             s |-> {[kind |-> g.kind, count |-> g.count, amt |-> g.amt, total |-> g.total, group |-> SeqRange(g.group)] : g \in SeqRange(X.s)},
             odd |-> X.odd]

ModelState(c) == [p |-> [r \in PIds |-> c.S.p[r]], o |-> [r \in OIds |-> c.S.o[r]]]
ModelAct(x)   == [op |-> x.op, r |-> x.r, v |-> x.v, s |-> x.s, l |-> SeqRange(x.l)]

\* the meaning of a bundle of one or two actions: [app, ok, s] - every action applicable where it is
\* taken; accepted as a whole or refused as a whole (a refused bundle leaves the state before it: C04)
Bundle(S0, as) ==
  LET a1 == ModelAct(as[1])
      s1 == Step(S0, a1)
  IN IF ~Applicable(S0, a1) THEN [app |-> FALSE, ok |-> FALSE, s |-> S0]
     ELSE IF Len(as) = 1 \/ ~s1.ok THEN [app |-> TRUE, ok |-> s1.ok, s |-> IF s1.ok THEN s1.s ELSE S0]
     ELSE LET a2 == ModelAct(as[2])
              s2 == Step(s1.s, a2)
          IN IF ~Applicable(s1.s, a2) THEN [app |-> FALSE, ok |-> FALSE, s |-> S0]
             ELSE [app |-> TRUE, ok |-> s2.ok, s |-> IF s2.ok THEN s2.s ELSE S0]

Judge(c) ==
  \* the engine refused the ordinary removals / additions that bring it to the state: nothing to judge
  \* (a note, not a verdict; the harness gives up only if most cases cannot be loaded)
  IF c.fail # "" THEN {"Core.load-failed"}
  ELSE LET S0 == ModelState(c)
           loaded == Within(c.before) /\ ToState(c.before) = S0
           st == Bundle(S0, c.as) IN
    (IF loaded THEN {} ELSE {"Core.load-mismatch"})
    \cup StateClauses(c.before, "load")
    \cup (IF c.exc # ""
          THEN (IF Canon(c.after) = Canon(c.before) THEN {} ELSE {"C04.model"})
               \cup (IF loaded /\ st.app /\ st.ok THEN {"Core.rejected"} ELSE {})
          ELSE StateClauses(c.after, "step")
               \* (an action the model refuses may also be accepted as a no-op: an update of a missing
               \*  record with the default value is trimmed away before anything looks for the record)
               \cup (IF ~loaded \/ ~st.app THEN {}
                     ELSE IF Within(c.after) /\ ToState(c.after) = st.s THEN {}
                     ELSE IF st.ok THEN {"Core.effect"} ELSE {"Core.accepted"})
               \cup (IF c.uexc = "" /\ Canon(c.undo) = Canon(c.before) THEN {} ELSE {"C01.model"}))

Init == i = 0 /\ bad = <<>> /\ (N > 0 \/ JsonSerialize(IOEnv.OUT_FILE, <<>>))
Next ==
  /\ i < N
  /\ i' = i + 1
  /\ bad' = LET j == Judge(Cases[i + 1])
            IN IF j = {} THEN bad ELSE Append(bad, [i |-> i + 1, c |-> j])
  /\ (i' < N \/ JsonSerialize(IOEnv.OUT_FILE, bad'))
Spec == Init /\ [][Next]_<<i, bad>>
View == i
=============================================================================
