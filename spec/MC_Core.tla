------------------------------- MODULE MC_Core -------------------------------
(***************************************************************************)
(* Bounded design model of Core.tla.  Every valid state of the universe is *)
(* an initial state and one user action is taken from it (then its undo):  *)
(* since every action leads back into the universe of valid states         *)
(* (Closed), one step from every state is an inductive argument for        *)
(* histories of any length within the row bounds.                          *)
(* With OUT_FILE set the states and actions are also exported; the harness *)
(* replays every (state, action) pair into the real engine (S->C).         *)
(***************************************************************************)
EXTENDS Core, TLC, Json, IOUtils, SequencesExt

VARIABLES S, phase, pre, act

vars == <<S, phase, pre, act>>

NoAct == Act("none", 0, 0, "", {})

\* the cases of the S->C replay: every state with every action that stays inside the model
ASSUME "OUT_FILE" \in DOMAIN IOEnv =>
  LET ss == SetToSeq(States)
      as == SetToSeq(Actions)
  IN JsonSerialize(IOEnv.OUT_FILE,
       [states |-> ss, actions |-> as,
        pairs |-> SetToSeq({<<i, j>> \in (1..Len(ss)) \X (1..Len(as)) : Applicable(ss[i], as[j])})])

Init == S \in States /\ phase = "idle" /\ pre = S /\ act = NoAct

Do == /\ phase = "idle"
      /\ \E a \in Actions :
           /\ Applicable(S, a)
           /\ S' = Step(S, a).s
           /\ act' = a
           /\ phase' = IF Step(S, a).ok THEN "done" ELSE "rejected"
      /\ pre' = S

Undo == /\ phase = "done"
        /\ S' = pre /\ phase' = "undone" /\ UNCHANGED <<pre, act>>

Next == Do \/ Undo
Spec == Init /\ [][Next]_vars

\* the step semantics never leaves the universe of valid states (C10: no reference to a missing row)
Closed == S \in States
\* a rejected action changes nothing (C04)
RejectedUnchanged == phase = "rejected" => S = pre
\* the derived values of the model satisfy the property predicates (sanity of the predicates)
PredicatesHold == LET D == DerivedOf(S) IN Symmetric(S, D) /\ SummaryExact(S, D) /\ FormulasFresh(S, D)
\* the reference side stays single-valued and the list side is its inverse
InverseLists == \A p1, p2 \in PEx(S) : p1 # p2 => OrdersOf(S, p1) \cap OrdersOf(S, p2) = {}
\* the summary rows partition the records
SummaryPartition == /\ UNION {g.group : g \in Summary(S)} = OEx(S)
                    /\ \A g \in Summary(S) : g.count > 0
\* vacuity guards: every kind of action is both accepted and (where possible) rejected somewhere
=============================================================================
