SPECIFICATION Spec
VIEW View
CHECK_DEADLOCK FALSE
