----------------------------- MODULE MC_TzIndex -----------------------------
(* Bounded design model of C34.  One state per input [z, lo, hi] (plus seed states, see below):        *)
(* a synthetic zone z (TzIndex!WellFormed) and the window lo..hi of instants to probe.                  *)
(*  family 1: <= MaxTr transitions at any instants of -Half..Half (edges included), offsets from       *)
(*            -MaxOff..MaxOff except 0 (hours west of UTC); consecutive offsets may be equal (a change *)
(*            of abbreviation only).  Instant 0 is the UTC midnight that starts day 0, so the window   *)
(*            straddles every zone's own midnight: gaps and overlaps before, at and after it           *)
(*  family 2: the same over -WHalf..WHalf with <= WMaxTr transitions (WHalf = 0: none)                  *)
(*  family 3: zones that cross the date line (a 24 h jump that skips or repeats a whole day)           *)
(* SpecSane: the admissible-output relation accepts the reference conversions (Index / IndexDt as       *)
(* moment.py documents them) on every probe of every zone - in particular the intended IndexDt          *)
(* round-trips every instant, assigns every skipped / repeated local time an offset in use around the  *)
(* instant, and every date has a midnight instant on that date.  The input space goes to OUT_FILE.      *)
EXTENDS TzIndex, TLC, Json, IOUtils, FiniteSetsExt
CONSTANTS Half, MaxTr, WHalf, WMaxTr, MaxOff

Offs == {o \in (0 - MaxOff)..MaxOff : o # 0}

Untils(lo, hi, n) == {s \in [1..n -> lo..hi] : \A k \in 1..(n - 1) : s[k] < s[k + 1]}
ZonesOf(lo, hi, m) ==
  UNION {{z \in {[u |-> u, o |-> o] : u \in Untils(lo, hi, n), o \in [1..(n + 1) -> Offs]} : WellFormed(z)}
         : n \in 0..m}
InputsOf(lo, hi, m) == {[z |-> z, lo |-> lo, hi |-> hi] : z \in ZonesOf(lo, hi, m)}
\* zones that move across the date line (as Pacific/Apia, Kwajalein did): a jump of 24 h that skips or
\* repeats a whole local day - day 0 exactly when the transition is at hour 10 / 11 / 12 respectively
DateLine == {[z |-> [u |-> <<x>>, o |-> p], lo |-> 8, hi |-> 14] :
               x \in 9..13, p \in {<<10, 0 - 14>>, <<11, 0 - 13>>, <<12, 0 - 12>>,
                                    <<0 - 14, 10>>, <<0 - 13, 11>>, <<0 - 12, 12>>}}
Valid == InputsOf(0 - Half, Half, MaxTr) \cup (IF WHalf = 0 THEN {} ELSE InputsOf(0 - WHalf, WHalf, WMaxTr))
         \cup DateLine

\* TLC computes initial states (and their invariants) on one thread: the inputs are therefore reached in
\* two steps, a seed state per part of the input space first (the parts are explored in parallel).
Key(in) == <<in.lo, in.z.o[1], IF in.z.u = <<>> THEN 99 ELSE in.z.u[1]>>
Seeds == {Key(in) : in \in Valid}

ASSUME "OUT_FILE" \in DOMAIN IOEnv
       => JsonSerialize(IOEnv.OUT_FILE, [seeds |-> Cardinality(Seeds), inputs |-> SetToSeq(Valid)])

VARIABLE input
IsSeed == "seed" \in DOMAIN input
Init == input \in {[seed |-> s] : s \in Seeds}
Next == /\ IsSeed
        /\ input' \in {in \in Valid : Key(in) = input.seed}
SpecSane == IsSeed \/ Ok(input, Ref(input))
\* the class is closed under what the definitions assume: a skipped local time lies in some gap
GapSane == IsSeed \/ \A l \in Locals(input) : Interp(input.z, l) = {} => GapsAt(input.z, l) # {}
=============================================================================
