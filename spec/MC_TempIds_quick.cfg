SPECIFICATION Spec
CHECK_DEADLOCK FALSE
CONSTANTS AddIds <- Ids3
          BulkAddIds <- Bulk1
          RefVals <- Refs2
          ListVals <- Lists1
          BulkRefVals <- None0
          AddrIds <- Addr2
          BulkAddrIds <- None0
          UpdRefVals <- Refs1
          UpdListVals <- Lists1
          RemIds <- Addr2
          BulkRemIds <- None0
          MaxLen = 3
INVARIANT SpecSane
INVARIANT Resolved
INVARIANT Sharp
