------------------------------- MODULE Rename -------------------------------
(***************************************************************************)
(* C16 - renames never change formula results                              *)
(* (sandbox/grist/useractions.py RenameColumn / RenameTable /              *)
(*  _updateColumnRecords / _updateTableRecords / _prepare_formula_renames, *)
(*  codebuilder.py parse_grist_names, textbuilder.py, identifiers.py).     *)
(*                                                                         *)
(* ENTITIES are tables and columns, known by an IDENTITY ("T2", "T1.a");   *)
(* every entity has a current NAME: a name map N = [identity -> name].     *)
(* A document (`sch`) is                                                   *)
(*   [tables : <<[id, name, nrows]>>,                                      *)
(*    cols   : [identity -> [tab, name, type, to, data, body, cmt, ord]]]  *)
(* type "Int" | "Ref" (to = identity of the target table) | "Any" (a       *)
(* formula column: body = its formula TREE, cmt = a trailing comment).     *)
(*                                                                         *)
(* A formula TREE refers to columns and tables by identity only:           *)
(*   <<"col", c>>  $c          <<"rec", c>>  rec.c                         *)
(*   <<"chain", <<c1..cn>>>>   $c1.c2...cn   (<<"recchain", ..>>: rec.c1..)*)
(*   <<"var", x, <<c1..cn>>>>  x.c1...cn     (x a local variable)          *)
(*   <<"lookup", fn, T, <<<<key, e>>..>>, ob, <<c1..>>, sp>>               *)
(*                             T.fn(key=e, .., order_by=ob).c1...          *)
(*   <<"all", T, <<c1..>>>>    T.all.c1...                                 *)
(*   <<"comp", open, x, elt, src>>   [elt for x in src]  / sum(elt for ..) *)
(*   <<"pn", fn, gb, ob, <<c1..>>>>  fn(rec, group_by=gb, order_by=ob).c1..*)
(*   <<"let", x, e1, e2>>      x = e1 \n return e2                         *)
(*   <<"list", <<e..>>>>  <<"call", f, e>>  <<"fstr", e>>                  *)
(*   <<"lit", text>>  <<"str", content, quote>>   (no mention: decoys)     *)
(* order_by / group_by values `ob`: <<>> (absent), <<"s", quote, sign, c>> *)
(* ("-c"), <<"t", <<ob..>>>> (a tuple of them).                            *)
(*                                                                         *)
(* The MEANING of a tree does not involve names, so it is trivially        *)
(* invariant under renaming.  Names only enter through Toks(N, tree): the  *)
(* token sequence <<text, entity>> of the formula text under the name map  *)
(* N (entity = "" for tokens that mention nothing).  The property is then: *)
(* after a rename step that turns N0 into N1,                              *)
(*   C16.values   every cell of every column (keyed by identity) is what   *)
(*                it was - as the engine reports it after the step, and as *)
(*                a from-scratch recalculation of the renamed document     *)
(*                gives it;                                                *)
(*   C16.text     every formula text is Cat(Toks(N1, tree)) for the SAME   *)
(*                tree - i.e. exactly the tokens mentioning the renamed    *)
(*                entity changed (OnlyMentionsChange is a theorem of the   *)
(*                token model, checked by MC_Rename);                      *)
(*   C16.applied  N1 differs from N0 at most at the target, whose new name *)
(*                is a valid, unused identifier (the requested one if that *)
(*                is valid and unused), and the engine's schema agrees     *)
(*                with its metadata; or the step was rejected and the      *)
(*                document is what it was;                                 *)
(*   C16.raised   the document could not be read (or recalculated) after   *)
(*                the step;                                                *)
(*   C16.undo     undoing the step restores names, texts and values.       *)
(* TLC strings support \o, Len and SubSeq: text is handled as strings.     *)
(***************************************************************************)
EXTENDS Naturals, Sequences, FiniteSets, TLC

----------------------------------------------------------------------------
\* Characters, identifiers (the relation of identifiers.py that this property relies on)

Char(s, i) == SubSeq(s, i, i)
CharsOf(s) == {Char(s, i) : i \in 1..Len(s)}
LowerS == "abcdefghijklmnopqrstuvwxyz"
UpperS == "ABCDEFGHIJKLMNOPQRSTUVWXYZ"
DigitS == "0123456789"
Lowers == CharsOf(LowerS)
Uppers == CharsOf(UpperS)
Digits == CharsOf(DigitS)
Letters == Lowers \cup Uppers
IdChars == Letters \cup Digits \cup {"_"}

UpTable == [ch \in Lowers |-> Char(UpperS, CHOOSE i \in 1..26 : Char(LowerS, i) = ch)]
UpChar(ch) == IF ch \in Lowers THEN UpTable[ch] ELSE ch
RECURSIVE UpFrom(_, _)
UpFrom(s, i) == IF i > Len(s) THEN "" ELSE UpChar(Char(s, i)) \o UpFrom(s, i + 1)
Up(s) == UpFrom(s, 1)
UpSet(S) == {Up(s) : s \in S}

\* keyword.kwlist of Python 3.12 (identifiers.py uses keyword.iskeyword)
Keywords == {"False", "None", "True", "and", "as", "assert", "async", "await", "break", "class",
             "continue", "def", "del", "elif", "else", "except", "finally", "for", "from", "global",
             "if", "import", "in", "is", "lambda", "nonlocal", "not", "or", "pass", "raise",
             "return", "try", "while", "with", "yield"}

Syntax(s) == /\ Len(s) > 0
             /\ Char(s, 1) \in Letters
             /\ \A i \in 1..Len(s) : Char(s, i) \in IdChars
ValidIdent(s) == Syntax(s) /\ s \notin Keywords
TableIdent(s) == ValidIdent(s) /\ Char(s, 1) \in Uppers
GoodFor(kind, s) == IF kind = "table" THEN TableIdent(s) ELSE ValidIdent(s)

\* `new` is an admissible new name for a requested name `req`; `sibs` = the names of the other
\* entities in the same namespace; `soft` = further names the engine may steer clear of ("id")
NameOk(kind, req, new, sibs, soft) ==
  /\ GoodFor(kind, new)
  /\ Up(new) \notin UpSet(sibs)
  /\ (GoodFor(kind, req) /\ Up(req) \notin UpSet(sibs \cup soft)) => new = req

----------------------------------------------------------------------------
\* Documents

SeqRange(s) == {s[i] : i \in 1..Len(s)}
TableIds(S) == {S.tables[i].id : i \in 1..Len(S.tables)}
ColIds(S)   == DOMAIN S.cols                      \* cols is keyed by identity
Entities(S) == TableIds(S) \cup ColIds(S)
IsTable(S, e) == e \in TableIds(S)
ColOf(S, c) == S.cols[c]
TabOf(S, t) == S.tables[CHOOSE i \in 1..Len(S.tables) : S.tables[i].id = t]
IsFormula(col) == col.body[1] # "none"
\* the name map the document is built with
Names0(S) == LET tids == TableIds(S) IN     \* (TLC does not hoist: bind what a quantifier body reuses)
             [e \in tids \cup ColIds(S) |-> IF e \in tids THEN TabOf(S, e).name ELSE S.cols[e].name]

----------------------------------------------------------------------------
\* Text of a tree under a name map: tokens <<text, entity mentioned or "">>

L(s)    == << <<s, "">> >>
M(N, e) == << <<N[e], e>> >>          \* N must name every entity the tree mentions

RECURSIVE Attrs(_, _)
Attrs(N, ch) == IF Len(ch) = 0 THEN <<>> ELSE L(".") \o M(N, ch[1]) \o Attrs(N, Tail(ch))

RECURSIVE Join(_, _)
Join(parts, sep) ==
  IF Len(parts) = 0 THEN <<>>
  ELSE IF Len(parts) = 1 THEN parts[1]
  ELSE parts[1] \o L(sep) \o Join(Tail(parts), sep)

RECURSIVE OBToks(_, _)
OBToks(N, ob) ==
  IF ob[1] = "s" THEN L(ob[2] \o ob[3]) \o M(N, ob[4]) \o L(ob[2])
  ELSE L("(") \o Join([j \in 1..Len(ob[2]) |-> OBToks(N, ob[2][j])], ", ")
       \o L(IF Len(ob[2]) = 1 THEN ",)" ELSE ")")

CloseOf(open) == IF open = "[" THEN "]" ELSE IF open = "{" THEN "}" ELSE ")"

RECURSIVE Toks(_, _)
Toks(N, e) ==
  LET k == e[1] IN
  CASE k = "col"      -> L("$") \o M(N, e[2])
    [] k = "rec"      -> L("rec.") \o M(N, e[2])
    [] k = "chain"    -> L("$") \o M(N, e[2][1]) \o Attrs(N, Tail(e[2]))
    [] k = "recchain" -> L("rec.") \o M(N, e[2][1]) \o Attrs(N, Tail(e[2]))
    [] k = "var"      -> L(e[2]) \o Attrs(N, e[3])
    [] k = "lit"      -> L(e[2])
    [] k = "str"      -> L(e[3] \o e[2] \o e[3])
    [] k = "fstr"     -> L("f'{") \o Toks(N, e[2]) \o L("}'")
    [] k = "list"     -> L("[") \o Join([j \in 1..Len(e[2]) |-> Toks(N, e[2][j])], ", ") \o L("]")
    [] k = "call"     -> L(e[2] \o "(") \o Toks(N, e[3]) \o L(")")
    [] k = "lookup"   ->
         LET eq   == e[7] \o "=" \o e[7]
             kws  == [j \in 1..Len(e[4]) |-> M(N, e[4][j][1]) \o L(eq) \o Toks(N, e[4][j][2])]
             args == IF Len(e[5]) = 0 THEN kws
                     ELSE Append(kws, L("order_by" \o eq) \o OBToks(N, e[5]))
         IN M(N, e[3]) \o L("." \o e[2] \o "(") \o Join(args, ", ") \o L(")") \o Attrs(N, e[6])
    [] k = "all"      -> M(N, e[2]) \o L(".all") \o Attrs(N, e[3])
    [] k = "comp"     -> L(e[2]) \o Toks(N, e[4]) \o L(" for " \o e[3] \o " in ") \o Toks(N, e[5])
                         \o L(CloseOf(e[2]))
    [] k = "pn"       -> L(e[2] \o "(rec")
                         \o (IF Len(e[3]) = 0 THEN <<>> ELSE L(", group_by=") \o OBToks(N, e[3]))
                         \o (IF Len(e[4]) = 0 THEN <<>> ELSE L(", order_by=") \o OBToks(N, e[4]))
                         \o L(")") \o Attrs(N, e[5])
    [] k = "let"      -> L(e[2] \o " = ") \o Toks(N, e[3]) \o L("\nreturn ") \o Toks(N, e[4])
    [] OTHER          -> L("<?>")

RECURSIVE CatFrom(_, _)
CatFrom(toks, i) == IF i > Len(toks) THEN "" ELSE toks[i][1] \o CatFrom(toks, i + 1)
Cat(toks) == CatFrom(toks, 1)

\* the whole formula of a column: its tree and a trailing comment (which mentions nothing)
ColToks(N, col) ==
  IF ~IsFormula(col) THEN <<>>
  ELSE Toks(N, col.body) \o (IF col.cmt = "" THEN <<>> ELSE L("  # " \o col.cmt))
FormulaText(N, col) == Cat(ColToks(N, col))

Mentions(S, col) == {t[2] : t \in SeqRange(ColToks(Names0(S), col))} \ {""}

\* "only those name tokens change": a theorem of the token model (checked in MC_Rename)
OnlyMentionsChange(S, Na, Nb, changed) ==
  \A c \in ColIds(S) :
    LET a == ColToks(Na, S.cols[c])  b == ColToks(Nb, S.cols[c]) IN
    /\ Len(a) = Len(b)
    /\ \A j \in 1..Len(a) : /\ a[j][2] = b[j][2]
                            /\ (a[j][1] # b[j][1] => a[j][2] \in changed)

----------------------------------------------------------------------------
\* Which trees are in the family (typing against the document).  Ty = the table of a record-valued
\* expression, "" for any other value, "!" for a tree outside the family.

RECURSIVE ChainEnd(_, _, _)
ChainEnd(S, tab, ch) ==
  IF Len(ch) = 0 THEN tab
  ELSE IF tab \notin TableIds(S) THEN "!"
  ELSE IF ch[1] \notin ColIds(S) THEN "!"
  ELSE IF ColOf(S, ch[1]).tab # tab THEN "!"
  ELSE ChainEnd(S, ColOf(S, ch[1]).to, Tail(ch))

RECURSIVE OBOk(_, _, _)
OBOk(S, tab, ob) ==
  IF Len(ob) = 0 THEN TRUE
  ELSE IF ob[1] = "s" THEN /\ ob[2] \in {"\"", "'"} /\ ob[3] \in {"", "-"}
                           /\ ChainEnd(S, tab, <<ob[4]>>) # "!"
  ELSE IF ob[1] = "t" THEN Len(ob[2]) > 0 /\ \A j \in 1..Len(ob[2]) : Len(ob[2][j]) > 0 /\ ob[2][j][1] = "s"
                                                                     /\ OBOk(S, tab, ob[2][j])
  ELSE FALSE

\* group_by takes column names only (no "-")
NoSign(ob) == Len(ob) = 0 \/ (ob[1] = "s" /\ ob[3] = "") \/ (ob[1] = "t" /\ \A j \in 1..Len(ob[2]) : ob[2][j][3] = "")

LocalNames == {"x", "y", "e", "v", "k", "z"}
Funcs == {"len", "sum", "list", "max", "min", "sorted", "str", "bool"}

RECURSIVE Ty(_, _, _, _)
Ty(S, h, sc, e) ==
  LET k == e[1]
      scalar(ok) == IF ok THEN "" ELSE "!"
  IN
  CASE k \in {"col", "rec"} -> ChainEnd(S, h, <<e[2]>>)
    [] k \in {"chain", "recchain"} -> IF Len(e[2]) = 0 THEN "!" ELSE ChainEnd(S, h, e[2])
    [] k = "var"  -> IF e[2] \in DOMAIN sc THEN ChainEnd(S, sc[e[2]], e[3]) ELSE "!"
    [] k \in {"lit", "str"} -> ""
    [] k = "fstr" -> scalar(Ty(S, h, sc, e[2]) = "")
    [] k = "list" -> scalar(\A j \in 1..Len(e[2]) : Ty(S, h, sc, e[2][j]) = "")
    [] k = "call" -> scalar(e[2] \in Funcs /\ Ty(S, h, sc, e[3]) # "!")
    [] k = "lookup" ->
         IF /\ e[2] \in {"lookupRecords", "lookupOne"}
            /\ e[3] \in TableIds(S)
            /\ e[7] \in {"", " "}
            /\ \A j \in 1..Len(e[4]) : /\ ChainEnd(S, e[3], <<e[4][j][1]>>) # "!"
                                       /\ Ty(S, h, sc, e[4][j][2]) # "!"
            /\ \A i, j \in 1..Len(e[4]) : i # j => e[4][i][1] # e[4][j][1]
            /\ OBOk(S, e[3], e[5])
         THEN ChainEnd(S, e[3], e[6]) ELSE "!"
    [] k = "all" -> IF e[2] \in TableIds(S) THEN ChainEnd(S, e[2], e[3]) ELSE "!"
    [] k = "comp" ->
         LET src == e[5]
             t   == IF src[1] = "lookup" /\ src[2] = "lookupRecords" /\ Len(src[6]) = 0 THEN Ty(S, h, sc, src)
                    ELSE IF src[1] = "all" /\ Len(src[3]) = 0 THEN Ty(S, h, sc, src) ELSE "!"
         IN scalar(/\ t \in TableIds(S) /\ e[3] \in LocalNames
                   /\ e[2] \in {"[", "{", "sum(", "list(", "max(", "sorted("}
                   /\ Ty(S, h, (e[3] :> t) @@ sc, e[4]) = "")
    [] k = "pn" ->
         IF /\ e[2] \in {"PREVIOUS", "NEXT", "RANK"} /\ Len(e[4]) > 0
            /\ OBOk(S, h, e[3]) /\ NoSign(e[3]) /\ OBOk(S, h, e[4])
            /\ (e[2] = "RANK" => Len(e[5]) = 0)
         THEN (IF e[2] = "RANK" THEN "" ELSE ChainEnd(S, h, e[5])) ELSE "!"
    [] OTHER -> "!"

\* a formula: an expression with a plain (non-record) value, or  x = <record> ; return <plain>.
\* (A record value is shown with the NAME of its table, which a table rename rightly changes.)
BodyOk(S, h, body) ==
  IF body[1] = "let"
  THEN /\ body[2] \in LocalNames
       /\ Ty(S, h, <<>>, body[3]) \in TableIds(S)
       /\ Ty(S, h, (body[2] :> Ty(S, h, <<>>, body[3])), body[4]) = ""
  ELSE Ty(S, h, <<>>, body) = ""

SchOk(S) ==
  LET tn == {Up(S.tables[i].name) : i \in 1..Len(S.tables)}
      cn == {<<S.cols[c].tab, Up(S.cols[c].name)>> : c \in ColIds(S)}
  IN
  /\ Cardinality(TableIds(S)) = Len(S.tables) /\ Cardinality(tn) = Len(S.tables)
  /\ \A i \in 1..Len(S.tables) : TableIdent(S.tables[i].name)
  /\ Cardinality(cn) = Cardinality(ColIds(S))
  /\ ColIds(S) \cap TableIds(S) = {}
  /\ \A id \in ColIds(S) :
       LET c == S.cols[id] IN
       /\ c.tab \in TableIds(S) /\ ValidIdent(c.name)
       /\ (c.type = "Ref") = (c.to # "") /\ (c.to # "" => c.to \in TableIds(S))
       /\ (c.type = "Any") = IsFormula(c)
       /\ IsFormula(c) => BodyOk(S, c.tab, c.body)

----------------------------------------------------------------------------
\* The step and its admissible outcomes

ColPaths   == {"RenameColumn", "colId", "label", "label_untied", "retie"}
TablePaths == {"RenameTable", "tableId", "title"}

\* in  = [sch, target, path, req]
\* out = [fail, exc, names0, names1, names2, texts0, texts1, texts2, vals0, vals1, vals1r, vals2,
\*        dig0, dig1, cons1, undo_exc]      (the maps are keyed by identity)
Mark(cond, name) == IF cond THEN {} ELSE {name}

StepOk(in) ==
  /\ in.target \in Entities(in.sch)
  /\ in.path \in (IF IsTable(in.sch, in.target) THEN TablePaths ELSE ColPaths)

InputOk(in) == SchOk(in.sch) /\ StepOk(in)

KindOf(in) == IF IsTable(in.sch, in.target) THEN "table" ELSE "col"

\* the other names in the namespace of the target, under N (hidden columns such as manualSort
\* are part of N as well: identity "<table>.<name>")
Siblings(in, N) ==
  LET tids == TableIds(in.sch)  cids == ColIds(in.sch) IN
  IF in.target \in tids
  THEN {N[e] : e \in {x \in DOMAIN N : x \in tids} \ {in.target}}
  ELSE LET tab == in.sch.cols[in.target].tab
           inTab(x) == IF x \in cids THEN in.sch.cols[x].tab = tab
                       ELSE x \notin tids /\ Len(x) > Len(tab) /\ SubSeq(x, 1, Len(tab) + 1) = tab \o "."
       IN {N[e] : e \in {x \in DOMAIN N : inTab(x)} \ {in.target}}

Changed(N0, N1) == LET d1 == DOMAIN N1 IN {e \in DOMAIN N0 : e \notin d1 \/ N1[e] # N0[e]}

AppliedOk(in, o) ==
  LET N0 == o.names0  N1 == o.names1 IN
  /\ DOMAIN N1 = DOMAIN N0
  /\ Changed(N0, N1) \subseteq {in.target}
  /\ o.cons1
  /\ \/ in.path = "label_untied" /\ Changed(N0, N1) = {}     \* an untied label need not rename
     \/ NameOk(KindOf(in), in.req, N1[in.target], Siblings(in, N1),
               IF KindOf(in) = "col" THEN {"id"} ELSE {})

BadVals(va, vb) ==
  LET da == DOMAIN va  db == DOMAIN vb IN {e \in da : e \notin db \/ vb[e] # va[e]} \cup (db \ da)
BadTexts(in, texts, N, texts0) ==
  LET cids == ColIds(in.sch)  dt == DOMAIN texts IN
  (IF ~(Entities(in.sch) \subseteq DOMAIN N) THEN {c \in cids : IsFormula(in.sch.cols[c])}
   ELSE {c \in cids : c \notin dt \/ texts[c] # FormulaText(N, in.sch.cols[c])})
  \cup {e \in DOMAIN texts0 \ cids : e \notin dt \/ texts[e] # texts0[e]}

Unchanged1(o) ==
  o.names1 = o.names0 /\ o.texts1 = o.texts0 /\ o.vals1 = o.vals0 /\ o.dig1 = o.dig0

\* ft / fv: the formula columns with an inadmissible text / the columns whose cells changed
ClausesFrom(in, o, ft, fv) ==
  IF o.fail # "" THEN {"C16.raised"}
  ELSE IF o.exc # "" THEN Mark(Unchanged1(o), "C16.applied")      \* rejected: nothing may have changed
  ELSE Mark(AppliedOk(in, o), "C16.applied")
       \cup Mark(fv = {}, "C16.values")
       \cup Mark(ft = {}, "C16.text")
       \cup Mark(o.undo_exc = "" /\ o.names2 = o.names0 /\ o.texts2 = o.texts0 /\ o.vals2 = o.vals0,
                 "C16.undo")

Clauses(in, o) ==
  IF o.fail # "" \/ o.exc # "" THEN ClausesFrom(in, o, {}, {})
  ELSE ClausesFrom(in, o, BadTexts(in, o.texts1, o.names1, o.texts0),
                   BadVals(o.vals0, o.vals1) \cup BadVals(o.vals0, o.vals1r))

Ok(in, o) == Clauses(in, o) = {}

----------------------------------------------------------------------------
(***************************************************************************)
(* Reference solution (what identifiers.py intends), used by MC_Rename to  *)
(* show that the relation is satisfiable on every input of the bound.  Not *)
(* part of the judgement.                                                  *)
(***************************************************************************)
RECURSIVE SanFrom(_, _, _)
SanFrom(s, i, prevSep) ==
  IF i > Len(s) THEN ""
  ELSE IF Char(s, i) \in IdChars THEN Char(s, i) \o SanFrom(s, i + 1, FALSE)
  ELSE (IF prevSep THEN "" ELSE "_") \o SanFrom(s, i + 1, TRUE)

RECURSIVE LStrip(_)
LStrip(s) == IF Len(s) > 0 /\ Char(s, 1) = "_" THEN LStrip(SubSeq(s, 2, Len(s))) ELSE s

RECURSIVE UnKeyword(_, _)
UnKeyword(s, prefix) == IF s \in Keywords THEN UnKeyword(prefix \o s, prefix) ELSE s

Sanitize(s, prefix, cap) ==
  LET a == LStrip(SanFrom(s, 1, FALSE))
      b == IF Len(a) > 0 /\ Char(a, 1) \in Digits THEN prefix \o a ELSE a
      c == IF cap /\ Len(b) > 0 THEN UpChar(Char(b, 1)) \o SubSeq(b, 2, Len(b)) ELSE b
  IN IF b = "" THEN "" ELSE UnKeyword(c, prefix)

RECURSIVE NumStr(_)
NumStr(n) == IF n < 10 THEN Char(DigitS, n + 1) ELSE NumStr(n \div 10) \o Char(DigitS, (n % 10) + 1)

RECURSIVE FirstFree(_, _, _)
FirstFree(base, used, n) ==
  IF Up(base \o NumStr(n)) \notin used THEN base \o NumStr(n) ELSE FirstFree(base, used, n + 1)

RECURSIVE LetterName(_)
LetterName(n) == IF n < 26 THEN Char(UpperS, n + 1) ELSE LetterName((n \div 26) - 1) \o Char(UpperS, (n % 26) + 1)
RECURSIVE FirstLetters(_, _)
FirstLetters(used, n) == IF LetterName(n) \notin used THEN LetterName(n) ELSE FirstLetters(used, n + 1)

\* `used` = upper-cased names to avoid
PickName(kind, req, used) ==
  LET base == Sanitize(req, IF kind = "table" THEN "T" ELSE "c", kind = "table") IN
  IF base = "" THEN (IF kind = "table" THEN FirstFree("Table", used, 1) ELSE FirstLetters(used, 0))
  ELSE IF Up(base) \notin used THEN base
  ELSE FirstFree(IF Char(base, Len(base)) \in Digits THEN base \o "_" ELSE base, used, 2)

=============================================================================
