------------------------------- MODULE TempIds -------------------------------
(***************************************************************************)
(* C26 - temporary (negative) row ids resolve consistently within a bundle *)
(* (sandbox/grist/action_summary.py update_new_rows_map /                  *)
(*  translate_new_row_ids, useractions.py doBulkAddOrReplace /             *)
(*  doBulkUpdateRecord / doBulkRemoveRecord, column.py ReferenceColumn /   *)
(*  ReferenceListColumn.prepare_new_values).                               *)
(*                                                                         *)
(* Two tables:  A(s: Int, r: Ref:B, rl: RefList:B)   B(s: Int, r: Ref:A).  *)
(* (In the real document A.s is column "v", B.s is "w", B.r is "back".)    *)
(* A document  doc[t]  is a function  row id -> [s, r, rl]  (rl = <<>> for *)
(* an empty RefList and for every row of B).                               *)
(*                                                                         *)
(* A BUNDLE is a sequence of actions                                       *)
(*   [k, t, ids, s, col, vals]                                             *)
(*   k    "Add" (AddRecord) | "BulkAdd" | "Upd" (UpdateRecord) | "BulkUpd" *)
(*        | "Rem" (RemoveRecord) | "BulkRem"                               *)
(*   t    the table;  ids  the row ids of the request.  In an add, 0 means *)
(*        None, n < 0 a temporary id, n > 0 an explicit id.  In Upd/Rem    *)
(*        n < 0 is a temporary id, n > 0 a row id.                         *)
(*   s    adds: the value of column s for every record (<<>> otherwise)    *)
(*   col  the one further column the action sets: "" (none), "r", "rl",    *)
(*        and for updates also "s";   vals  its value for every record, a  *)
(*        sequence of integers (one integer for "s" and "r")               *)
(*                                                                         *)
(* Inside a bundle the specification keeps  tmap[t] : temporary id -> row  *)
(* (the later add wins when a temporary id is used again, as documented at *)
(* update_new_rows_map).  The meaning of a bundle is defined RELATIVE TO   *)
(* THE ROWS THE ADDS WERE GIVEN (`rets`, the ids the adds returned): which *)
(* ids an implementation picks is C27's subject, here they only have to be*)
(* fresh rows.  Run(...) interprets the bundle:                            *)
(*   - an add creates the rows it was given and remembers its negative ids;*)
(*   - Upd/Rem translate their row ids through tmap[t];                    *)
(*   - values of r / rl translate through tmap[target table];              *)
(*   - Rem also clears references to the removed rows (r := 0, rl loses    *)
(*     the element), which is what the engine documents for removals.      *)
(*                                                                         *)
(* What the property says, and what it leaves open:                        *)
(*   MustReject  a reference value uses a negative id that NO add of the   *)
(*               bundle (before, at or after that action) gives to the     *)
(*               target table: the bundle is rejected, document unchanged. *)
(*   status "open"  (nothing is demanded): a reference value uses a        *)
(*               negative id that only a LATER add creates (forward        *)
(*               reference); Upd/Rem address a negative id that is not in  *)
(*               tmap[t], a row that does not exist, or the same row twice;*)
(*               an explicit id that exists / is repeated / is too high    *)
(*               (C27's subject); a malformed action.                      *)
(*   lenient     the bundle has a meaning, but whether it is served may    *)
(*               depend on how automatic ids are chosen or on C27's open   *)
(*               point (the same negative id twice in ONE add request):    *)
(*               rejection is admitted; if it is served it is judged.      *)
(*   otherwise   the bundle must be served, the adds return fresh rows,    *)
(*               and the document afterwards is Run's document.            *)
(***************************************************************************)
EXTENDS Integers, Sequences, FiniteSets

MaxRowId == 1000000
Tables   == {"A", "B"}

Target(t, col) == IF t = "A" /\ col \in {"r", "rl"} THEN "B"
                  ELSE IF t = "B" /\ col = "r" THEN "A"
                  ELSE "none"

Range(q)    == {q[i] : i \in 1..Len(q)}
Distinct(q) == \A i, j \in 1..Len(q) : i # j => q[i] # q[j]
SetMax(S)   == IF S = {} THEN 0 ELSE CHOOSE m \in S : \A x \in S : x <= m
Max2(a, b)  == IF a >= b THEN a ELSE b
Mark(cond, name) == IF cond THEN {} ELSE {name}

IsAdd(a) == a.k \in {"Add", "BulkAdd"}
IsUpd(a) == a.k \in {"Upd", "BulkUpd"}
IsRem(a) == a.k \in {"Rem", "BulkRem"}

\* ---- shape of an action ----------------------------------------------------------------------
WellFormed(a) ==
  /\ a.t \in Tables
  /\ a.k \in {"Add", "BulkAdd", "Upd", "BulkUpd", "Rem", "BulkRem"}
  /\ a.k \in {"Add", "Upd", "Rem"} => Len(a.ids) = 1
  /\ IsAdd(a) => Len(a.s) = Len(a.ids) /\ a.col \in {"", "r", "rl"}
  /\ IsUpd(a) => a.col \in {"s", "r", "rl"} /\ \A j \in 1..Len(a.ids) : a.ids[j] # 0
  /\ IsRem(a) => a.col = "" /\ \A j \in 1..Len(a.ids) : a.ids[j] # 0
  /\ a.col \in {"r", "rl"} => Target(a.t, a.col) # "none"
  /\ a.col # "" => /\ Len(a.vals) = Len(a.ids)
                   /\ a.col \in {"s", "r"} => \A j \in 1..Len(a.vals) : Len(a.vals[j]) = 1

\* ---- negative ids in reference values, and the adds that create them --------------------------
RefUses(a) == IF a.col \in {"r", "rl"}
              THEN {x \in UNION {Range(a.vals[j]) : j \in 1..Len(a.vals)} : x < 0}
              ELSE {}
Creates(a, t) == IF IsAdd(a) /\ a.t = t THEN {x \in Range(a.ids) : x < 0} ELSE {}

\* some reference value names a negative id that no add of the bundle gives to the target table
MustReject(acts) ==
  \E n \in 1..Len(acts) :
    \E x \in RefUses(acts[n]) :
      \A m \in 1..Len(acts) : x \notin Creates(acts[m], Target(acts[n].t, acts[n].col))

\* ---- the interpreter --------------------------------------------------------------------------
Put(m, x, v) == [y \in DOMAIN m \cup {x} |-> IF y = x THEN v ELSE m[y]]
RECURSIVE Remember(_, _, _, _)
Remember(m, ids, al, j) ==
  IF j > Len(ids) THEN m
  ELSE Remember(IF ids[j] < 0 THEN Put(m, ids[j], al[j]) ELSE m, ids, al, j + 1)

Tr(m, x)    == IF x < 0 /\ x \in DOMAIN m THEN m[x] ELSE x
TrSeq(m, q) == [i \in 1..Len(q) |-> Tr(m, q[i])]

Ext(f, g) == [x \in DOMAIN f \cup DOMAIN g |-> IF x \in DOMAIN g THEN g[x] ELSE f[x]]

\* the reference allocation of automatic ids (C27: the next id above every existing one)
RECURSIVE Fill(_, _, _)
Fill(ids, next, acc) ==
  IF Len(acc) = Len(ids) THEN acc
  ELSE LET x  == ids[Len(acc) + 1]
           id == IF x <= 0 THEN next ELSE x
       IN Fill(ids, Max2(next, id) + 1, Append(acc, id))
RefIds(rows, ids) == Fill(ids, SetMax(rows) + 1, <<>>)

Start(doc) ==
  [status |-> "ok", lenient |-> FALSE, doc |-> doc,
   tmap  |-> [t \in Tables |-> <<>>],
   known |-> [t \in Tables |-> DOMAIN doc[t]],      \* rows whose existence does not depend on the
   gone  |-> [t \in Tables |-> {}],                 \*   choice of automatic ids; rows removed so far
   autos |-> [t \in Tables |-> FALSE],              \* an automatic id was allocated in t
   rets  |-> <<>>]

Stop(st, status) == [st EXCEPT !.status = status]

\* the value an action gives to column `col` of its j-th record, translated
PayVal(st, a, j) ==
  IF a.col = "s" THEN a.vals[j] ELSE TrSeq(st.tmap[Target(a.t, a.col)], a.vals[j])
PayOpen(st, a) ==      \* a negative reference id that is not (yet) known: a forward reference
  a.col \in {"r", "rl"} /\ \E j \in 1..Len(a.vals) : \E x \in Range(PayVal(st, a, j)) : x < 0
SetCol(cell, col, v) ==
  IF col = "s" THEN [cell EXCEPT !.s = v[1]]
  ELSE IF col = "r" THEN [cell EXCEPT !.r = v[1]]
  ELSE IF col = "rl" THEN [cell EXCEPT !.rl = v]
  ELSE cell

AddStep(st, a, given, useRef) ==
  LET t    == a.t
      rows == DOMAIN st.doc[t]
      n    == Len(a.ids)
      expl == {j \in 1..n : a.ids[j] > 0}
      auto == (1..n) \ expl
      al   == IF useRef THEN RefIds(rows, a.ids) ELSE given.ids
      okk  == useRef \/ given.k = "ids"
      tm2  == [st.tmap EXCEPT ![t] = Remember(st.tmap[t], a.ids, al, 1)]
      st2  == [st EXCEPT !.tmap = tm2]
      new  == [id \in Range(al) |->
                 LET j == CHOOSE j \in 1..n : al[j] = id
                 IN SetCol([s |-> a.s[j], r |-> 0, rl |-> <<>>], a.col,
                           IF a.col = "" THEN <<>> ELSE PayVal(st2, a, j))]
  IN IF \/ \E j \in expl : (a.ids[j] \in rows \/ a.ids[j] > MaxRowId)
        \/ \E i, j \in expl : i < j /\ a.ids[i] = a.ids[j]
     THEN Stop(st, "open")                                        \* C27's subject
     ELSE IF ~(okk /\ Len(al) = n /\ Distinct(al) /\ (\A j \in 1..n : al[j] > 0 /\ al[j] \notin rows)
               /\ (\A j \in expl : al[j] = a.ids[j]))
     THEN Stop(st, "badret")                                      \* the add was not given fresh rows
     ELSE IF PayOpen(st2, a) THEN Stop(st, "open")
     ELSE [st2 EXCEPT
             !.doc[t]   = Ext(@, new),
             !.known[t] = @ \cup {a.ids[j] : j \in expl},
             !.autos[t] = @ \/ auto # {},
             !.rets     = Append(@, al),
             !.lenient  = \/ @
                          \/ \E j \in expl : a.ids[j] \notin st.known[t] /\ (st.autos[t] \/ auto # {})
                          \/ \E i, j \in auto : i < j /\ a.ids[i] < 0 /\ a.ids[i] = a.ids[j]]

\* Upd / Rem: the rows addressed, or "open"
Addressed(st, a) == TrSeq(st.tmap[a.t], a.ids)
AddrOpen(st, a) ==
  LET ids == Addressed(st, a)
  IN ~Distinct(ids) \/ \E j \in 1..Len(ids) : ids[j] \notin DOMAIN st.doc[a.t]
AddrLenient(st, a) ==
  \E j \in 1..Len(a.ids) : \/ (a.ids[j] > 0 /\ a.ids[j] \notin st.known[a.t])
                            \/ Addressed(st, a)[j] \in st.gone[a.t]

UpdStep(st, a) ==
  LET t   == a.t
      ids == Addressed(st, a)
  IN IF AddrOpen(st, a) \/ PayOpen(st, a) THEN Stop(st, "open")
     ELSE [st EXCEPT
             !.doc[t] = [id \in DOMAIN @ |->
                           IF id \in Range(ids)
                           THEN SetCol(@[id], a.col, PayVal(st, a, CHOOSE j \in 1..Len(ids) : ids[j] = id))
                           ELSE @[id]],
             !.rets    = Append(@, <<>>),
             !.lenient = @ \/ AddrLenient(st, a)]

RemStep(st, a) ==
  LET t    == a.t
      dead == Range(Addressed(st, a))
      Keep(x) == x \notin dead
      Clean(u, cell) ==
        [cell EXCEPT !.r  = IF Target(u, "r") = t /\ @ \in dead THEN 0 ELSE @,
                     !.rl = IF Target(u, "rl") = t THEN SelectSeq(@, Keep) ELSE @]
  IN IF AddrOpen(st, a) THEN Stop(st, "open")
     ELSE [st EXCEPT
             !.doc = [u \in Tables |->
                        [id \in (DOMAIN st.doc[u]) \ (IF u = t THEN dead ELSE {}) |-> Clean(u, st.doc[u][id])]],
             !.known[t] = @ \ dead,
             !.gone[t]  = @ \cup dead,
             !.rets     = Append(@, <<>>),
             !.lenient  = @ \/ AddrLenient(st, a)]

\* rets[n] = [k, ids] is what action n returned (only looked at for adds, only if ~useRef)
RECURSIVE RunFrom(_, _, _, _, _)
RunFrom(st, acts, n, rets, useRef) ==
  IF n > Len(acts) \/ st.status # "ok" THEN st
  ELSE LET a == acts[n]
       IN IF ~WellFormed(a) THEN Stop(st, "open")
          ELSE RunFrom(IF IsAdd(a) THEN AddStep(st, a, IF useRef THEN [k |-> "ids", ids |-> <<>>] ELSE rets[n], useRef)
                       ELSE IF IsUpd(a) THEN UpdStep(st, a)
                       ELSE RemStep(st, a),
                       acts, n + 1, rets, useRef)

Run(doc, acts, rets)  == RunFrom(Start(doc), acts, 1, rets, FALSE)
RunRef(doc, acts)     == RunFrom(Start(doc), acts, 1, <<>>, TRUE)

DocEq(d, e) == \A t \in Tables : /\ DOMAIN d[t] = DOMAIN e[t]
                                 /\ \A id \in DOMAIN d[t] : d[t][id] = e[t][id]

\* "strict" (must be served), "lenient", "open", "reject"
Class(doc, acts) ==
  IF MustReject(acts) THEN "reject"
  ELSE LET r == RunRef(doc, acts)
       IN IF r.status # "ok" THEN "open" ELSE IF r.lenient THEN "lenient" ELSE "strict"

(***************************************************************************)
(* The admissible-outcome relation.  An outcome o is what one observes:    *)
(*   rej   the bundle raised            same  whole document as before     *)
(*   rets  <<[k, ids]>> per action: k = "ids" if an id / a list of ids was *)
(*         returned ("none", "other" otherwise), ids the returned ids      *)
(*   doc   the document afterwards                                         *)
(***************************************************************************)
Clauses(doc, acts, o) ==
  IF MustReject(acts)
  THEN Mark(o.rej /\ o.same /\ DocEq(o.doc, doc), "C26.reject")
  ELSE IF o.rej
  THEN Mark(Class(doc, acts) # "strict", "C26.raised")
  ELSE IF Len(o.rets) # Len(acts) THEN {"C26.ret"}
  ELSE LET r == Run(doc, acts, o.rets)
       IN IF r.status = "badret" THEN {"C26.ret"}
          ELSE IF r.status = "open" THEN {}
          ELSE Mark(DocEq(o.doc, r.doc), "C26.resolve")

Ok(doc, acts, o) == Clauses(doc, acts, o) = {}

\* the outcome of the reference interpretation (reference allocation of automatic ids)
RefOutcome(doc, acts) ==
  LET r   == RunRef(doc, acts)
      rej == [rej |-> TRUE, same |-> TRUE, rets |-> <<>>, doc |-> doc]
  IN IF MustReject(acts) \/ r.status # "ok" THEN rej
     ELSE [rej |-> FALSE, same |-> DocEq(r.doc, doc),
           rets |-> [n \in 1..Len(acts) |-> IF IsAdd(acts[n]) THEN [k |-> "ids", ids |-> r.rets[n]]
                                            ELSE [k |-> "none", ids |-> <<>>]],
           doc |-> r.doc]

=============================================================================
