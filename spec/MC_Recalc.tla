------------------------------ MODULE MC_Recalc ------------------------------
EXTENDS Recalc, Json, IOUtils, SequencesExt
Cols2 == <<"A", "B">>
Cols3 == <<"A", "B", "C">>
Cols4 == <<"A", "B", "C", "D">>

\* The program space of this configuration, written out so that the harness can run the real
\* engine on exactly the programs TLC explored (S->C).
Programs == {[same |-> [c \in Cols |-> SetToSeq(sm[c])], cross |-> [c \in Cols |-> SetToSeq(cr[c])]] :
               sm \in [Cols -> SUBSET Cols],
               cr \in [Cols -> IF AllowCross THEN SUBSET Cols ELSE {{}}]}
ASSUME "OUT_FILE" \in DOMAIN IOEnv =>
         JsonSerialize(IOEnv.OUT_FILE, [cols |-> ColSeq, rows |-> SetToSeq(Rows), programs |-> SetToSeq(Programs)])
=============================================================================
