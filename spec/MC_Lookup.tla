------------------------------ MODULE MC_Lookup ------------------------------
(* Bounded design model of C13: the stored table T walked through every edit history of a family.  *)
(*                                                                                                  *)
(* A family fixes the value sets of the columns, the initial number of rows, the kinds of edits     *)
(* and the depth.  A state is a node of the history tree: (family, initial rows, edits so far) and  *)
(* the model states `ss` they lead through (Lookup!States).  Invariants, on every node:             *)
(*   SpecSane   the relation Lookup!Clauses accepts the reference solution (insertion sort) for     *)
(*              every standard observer and probe - the relation is satisfiable everywhere;         *)
(*   OrderSane  Lookup!Before is a strict total order on the rows whenever the precondition         *)
(*              (mutually comparable sort values) holds - so the admissible sequence is unique;     *)
(*   ModelSane  rows ascending by id, ids and positions distinct, every listed edit applicable.     *)
(* The maximal histories (leaves) are written to OUT_FILE together with the observers of each family *)
(* (a history names its family's observer list by `ox` and carries its probes); the harness runs  *)
(*  the real engine on them and Trace_Lookup judges every step.             *)
EXTENDS Lookup, TLC, Json, IOUtils, SequencesExt, FiniteSetsExt
CONSTANTS Fams

Key(col, how, src, me) == [col |-> col, how |-> how, src |-> src, me |-> me]
Obs(one, keys, mode, ord) == [one |-> one, keys |-> keys, mode |-> mode, ord |-> ord]
KQ == <<Key("k", "eq", "q", None)>>

ObsStd == <<
  Obs(FALSE, KQ, "default", <<>>),                                          \*  1 T.lookupRecords(k=$q)
  Obs(FALSE, KQ, "order_by", <<OC("s1", TRUE)>>),                           \*  2 order_by="-s1"
  Obs(FALSE, KQ, "order_by", <<OC("s1", FALSE), OC("s2", TRUE)>>),          \*  3 order_by=("s1","-s2")
  Obs(FALSE, KQ, "sort_by",  <<OC("s1", FALSE)>>),                          \*  4 sort_by="s1"
  Obs(TRUE,  KQ, "order_by", <<OC("s1", FALSE)>>),                          \*  5 lookupOne(order_by="s1").id
  Obs(FALSE, KQ, "order_by", <<>>),                                         \*  6 order_by=None
  Obs(FALSE, KQ, "order_by", <<OC("s2", TRUE), OC("id", FALSE)>>),          \*  7 order_by=("-s2","id")
  Obs(FALSE, KQ, "order_by", <<OC("manualSort", TRUE)>>),                   \*  8 order_by="-manualSort"
  Obs(FALSE, KQ, "sort_by",  <<OC("s2", TRUE)>>),                           \*  9 sort_by="-s2"
  Obs(TRUE,  KQ, "default", <<>>),                                          \* 10 lookupOne(k=$q).id
  Obs(FALSE, <<Key("L", "in", "q", None)>>, "default", <<>>),               \* 11 L=CONTAINS($q)
  Obs(FALSE, <<Key("L", "inme", "q", St(""))>>, "order_by", <<OC("s1", TRUE)>>),  \* 12 CONTAINS($q, match_empty="")
  Obs(FALSE, <<Key("L", "in", "q", None), Key("k", "eq", "p", None)>>,
      "order_by", <<OC("s2", FALSE)>>),                                     \* 13 two keys
  Obs(FALSE, <<Key("r", "eq", "id", None)>>, "order_by", <<OC("s1", FALSE)>>),    \* 14 r=$id
  Obs(TRUE,  <<Key("r", "eq", "id", None)>>, "sort_by", <<OC("s1", TRUE)>>),      \* 15 lookupOne(r=$id, sort_by="-s1")
  Obs(FALSE, <<Key("s2", "eq", "q", None)>>, "order_by", <<OC("id", TRUE)>>)      \* 16 s2=$q, order_by="-id"
>>

P(id, q, p) == [id |-> id, q |-> q, p |-> p]
\* probes (rows of O): q is the looked-up value, p a second key for the two-key observer
PK  == << P(1, I(1), I(1)), P(2, I(2), I(1)), P(3, St("1"), I(1)), P(4, Fl(3), I(1)), P(5, None, I(1)) >>
PS  == << P(1, I(1), I(1)), P(2, St("1"), I(1)), P(3, I(2), I(1)) >>
PL  == << P(1, St("a"), I(1)), P(2, St("b"), I(1)), P(3, St(""), I(1)), P(4, St("a"), I(2)) >>
PR  == << P(1, I(1), I(1)), P(2, None, I(1)), P(3, St("x"), I(1)), P(4, St(""), I(1)), P(5, St("a"), I(1)) >>

(* ---- families ------------------------------------------------------------------------------- *)
\* obs: the observers (indices into ObsStd) that O holds in this family; probes: the rows of O
Fam(name, n0, K, Lv, S1, S2, R, ops, depth, maxrows, obs, probes) ==
  [name |-> name, n0 |-> n0, K |-> K, Lv |-> Lv, S1 |-> S1, S2 |-> S2, R |-> R, ops |-> ops,
   depth |-> depth, maxrows |-> maxrows, obs |-> obs, probes |-> probes]

La  == Li(<<St("a")>>)
Lab == Li(<<St("a"), St("b")>>)
Lb  == Li(<<St("b")>>)
K12 == {I(1), I(2)}
DataOps == {"updk", "upds1", "add", "rem", "mv"}
OK1 == <<1, 2, 3, 4, 5, 6, 8, 10>>          \* key k, orders over s1 / manualSort
OS2 == <<2, 3, 4, 5, 6, 7, 8, 9>>           \* orders over s1, s2, manualSort, id
OL  == <<11, 12, 13, 2>>                    \* CONTAINS
OR  == <<14, 15, 1, 5, 16>>                 \* reference key, Int key with empty / alt-text cells, Text key
OM  == <<1, 2, 3, 5, 10>>
OX  == <<1, 2, 3, 4, 5, 12>>

QuickFams == <<
  \* key and one sort column: index and sorted-cache maintenance
  Fam("key",    2, K12, {None}, {None, I(1)}, {St("a")}, {I(0)}, {"updk", "upds1", "add", "rem"}, 2, 3, OK1, PK),
  \* one key, two sort columns and manualSort
  Fam("sort2",  2, {I(1)}, {None}, {I(1), I(2)}, {St("a"), St("b")}, {I(0)}, {"upds1", "upds2", "mv", "rem"}, 2, 2, OS2, PS),
  \* CONTAINS on a list column
  Fam("list",   1, {I(1)}, {None, La, Lab}, {I(1), I(2)}, {St("a")}, {I(0)}, {"updL", "upds1", "add", "rem"}, 2, 2, OL, PL),
  \* reference keys, alt-text and empty keys
  Fam("ref",    1, {I(1), None, St("x")}, {None}, {I(1)}, {St("a")}, {I(1), I(2)}, {"updk", "updr", "add", "rem"}, 2, 2, OR, PR),
  \* two cells in one action, bulk updates, undo
  Fam("multi",  1, K12, {None}, {I(1), I(2)}, {St("a")}, {I(0)}, {"upd2", "bupd", "undo", "add"}, 2, 2, OM, PK),
  \* schema-level edits: type change of the sort column, observers re-entered, ReplaceTableData, probe edits
  Fam("schema", 2, K12, {None}, {I(1), I(2)}, {St("a")}, {I(0)}, {"retype", "reobs", "repl", "probe", "upds1"}, 2, 2, OX, PK)
>>
ThoroughFams == <<
  Fam("key",    2, K12, {None}, {None, I(1)}, {St("a")}, {I(0)}, {"updk", "upds1", "add", "rem"}, 3, 3, OK1, PK),
  Fam("keymv",  2, K12, {None}, {None, I(1), I(2)}, {St("a")}, {I(0)}, DataOps, 2, 3, OK1, PK),
  Fam("sort2",  2, {I(1)}, {None}, {I(1), I(2)}, {St("a"), St("b")}, {I(0)}, {"upds1", "upds2", "mv"}, 3, 2, OS2, PS),
  Fam("sort2r", 2, {I(1)}, {None}, {I(1), I(2)}, {St("a"), St("b")}, {I(0)}, {"upds1", "upds2", "mv", "add", "rem"}, 2, 3, OS2, PS),
  Fam("list",   1, {I(1)}, {None, La, Lab}, {I(1), I(2)}, {St("a")}, {I(0)}, {"updL", "upds1", "add", "rem"}, 3, 2, OL, PL),
  Fam("list4",  1, {I(1)}, {None, La, Lab, Lb}, {I(1), I(2)}, {St("a")}, {I(0)}, {"updL", "upds1", "add", "rem"}, 2, 3, OL, PL),
  Fam("ref",    1, {I(1), None, St("x")}, {None}, {I(1), I(2)}, {St("a")}, {I(1), I(2)}, {"updk", "updr", "upds1", "rem", "add"}, 2, 3, OR, PR),
  Fam("multi",  2, K12, {None}, {I(1), I(2)}, {St("a")}, {I(0)}, {"upd2", "bupd", "undo", "rem", "add"}, 2, 3, OM, PK),
  Fam("multi3", 2, K12, {None}, {I(1), I(2)}, {St("a")}, {I(0)}, {"upd2", "undo"}, 3, 2, OM, PK),
  Fam("schema", 2, K12, {None}, {I(1), I(2)}, {St("a")}, {I(0)}, {"retype", "reobs", "repl", "probe", "upds1"}, 2, 2, OX, PK),
  Fam("schema3", 2, {I(1)}, {None}, {I(1), I(2)}, {St("a")}, {I(0)}, {"retype", "reobs", "repl", "probe", "upds1"}, 3, 2, OX, PK)
>>

ObsOf(fm) == [x \in 1..Len(fm.obs) |-> ObsStd[fm.obs[x]]]

Contents(fm) == {Content(a, b, c, d, e) : a \in fm.K, b \in fm.Lv, c \in fm.S1, d \in fm.S2, e \in fm.R}
Inits(fm) == [1..fm.n0 -> Contents(fm)]
ContentOf(r) == Content(r.k, r.L, r.s1, r.s2, r.r)

RowSet(st) == {st.rows[j] : j \in 1..Len(st.rows)}

(* The edits of a family that are possible in a model state.  No-op updates and moves are left out. *)
EditsOf(fm, ss, edits) ==
  LET st   == ss[Len(ss)]
      rows == RowSet(st)
      has(o) == o \in fm.ops
      \* sort values as the column currently stores them (after an Int -> Numeric type change: floats)
      S1now == {ConvStored(st.ty.s1, v) : v \in fm.S1}
      first2 == IF Len(st.rows) >= 2 THEN <<st.rows[1].id, st.rows[2].id>> ELSE <<>>
  IN (IF has("updk")  THEN {Upd(r.id, "k", v)  : r \in rows, v \in fm.K}  ELSE {}) \cup
     (IF has("upds1") THEN {Upd(r.id, "s1", v) : r \in rows, v \in S1now} ELSE {}) \cup
     (IF has("upds2") THEN {Upd(r.id, "s2", v) : r \in rows, v \in fm.S2} ELSE {}) \cup
     (IF has("updL")  THEN {Upd(r.id, "L", v)  : r \in rows, v \in fm.Lv} ELSE {}) \cup
     (IF has("updr")  THEN {Upd(r.id, "r", v)  : r \in rows, v \in fm.R}  ELSE {}) \cup
     (IF has("upd2")  THEN {Upd2(r.id, "k", v, "s1", w) : r \in rows, v \in fm.K, w \in S1now} ELSE {}) \cup
     (IF has("bupd") /\ first2 # <<>>
      THEN {BUpd(first2, "k", <<v, w>>) : v \in fm.K, w \in fm.K} ELSE {}) \cup
     (IF has("add") /\ Len(st.rows) < fm.maxrows
      THEN {Add(<<[c EXCEPT !.s1 = ConvStored(st.ty.s1, c.s1)]>>) : c \in Contents(fm)} ELSE {}) \cup
     (IF has("rem")   THEN {Rem(<<r.id>>) : r \in rows} ELSE {}) \cup
     (IF has("mv")    THEN {Mv(r.id, b) : r \in rows, b \in {x.id : x \in rows} \cup {0}} ELSE {}) \cup
     (IF has("retype") THEN {Retype("s1", IF st.ty.s1 = "Int" THEN "Numeric" ELSE "Int")} ELSE {}) \cup
     (IF has("repl") /\ Len(st.rows) >= 2
      THEN {Repl(<<st.rows[1].id>>, <<ContentOf(st.rows[1])>>),
            Repl(<<st.rows[Len(st.rows)].id>>, <<ContentOf(st.rows[Len(st.rows)])>>)} ELSE {}) \cup
     (IF has("undo") /\ edits # <<>> /\ edits[Len(edits)].op # "undo" THEN {Undo} ELSE {}) \cup
     (IF has("reobs") /\ (edits = <<>> \/ edits[Len(edits)].op # "reobs") THEN {ReObs} ELSE {}) \cup
     (IF has("probe") THEN {Probe(1, "q", v) : v \in {I(1), I(2)}} ELSE {})

StepTo(ss, e) == IF e.op = "undo" THEN ss[Len(ss) - 1] ELSE ApplyEdit(ss[Len(ss)], e)
Changes(ss, e) ==
  LET a == ss[Len(ss)]
      b == StepTo(ss, e)
  IN e.op \in {"reobs", "undo", "repl"} \/ a.ty # b.ty \/ a.probes # b.probes \/ Ranked(a.rows) # Ranked(b.rows)
Moves(fm, ss, edits) == {e \in EditsOf(fm, ss, edits) : Applicable(ss[Len(ss)], e) /\ Changes(ss, e)}

Start(fm, init) == <<State0(fm.probes), Loaded(fm.probes, init)>>

(* ---- the maximal histories, as a sequence (never one big set: TLC's union of sets is quadratic) -- *)
RECURSIVE LeavesFrom(_, _, _, _), LeavesOver(_, _, _, _, _, _)
LeavesFrom(fm, ss, edits, d) ==
  LET es == IF d = 0 THEN <<>> ELSE SetToSeq(Moves(fm, ss, edits))
  IN IF es = <<>> THEN <<edits>> ELSE LeavesOver(fm, ss, edits, d, es, 1)
LeavesOver(fm, ss, edits, d, es, j) ==
  IF j > Len(es) THEN <<>>
  ELSE LeavesFrom(fm, Append(ss, StepTo(ss, es[j])), Append(edits, es[j]), d - 1)
       \o LeavesOver(fm, ss, edits, d, es, j + 1)

RECURSIVE HistOfInits(_, _, _, _)
HistOfInits(k, fm, inits, j) ==
  IF j > Len(inits) THEN <<>>
  ELSE LET lv == LeavesFrom(fm, Start(fm, inits[j]), <<>>, fm.depth)
       IN [x \in 1..Len(lv) |-> [fam |-> fm.name, ox |-> k, probes |-> fm.probes, init |-> inits[j], edits |-> lv[x]]]
          \o HistOfInits(k, fm, inits, j + 1)
RECURSIVE AllHist(_)
AllHist(k) == IF k > Len(Fams) THEN <<>>
              ELSE HistOfInits(k, Fams[k], SetToSeq(Inits(Fams[k])), 1) \o AllHist(k + 1)

ASSUME "OUT_FILE" \in DOMAIN IOEnv
       => JsonSerialize(IOEnv.OUT_FILE, [obsets |-> [k \in 1..Len(Fams) |-> ObsOf(Fams[k])], hist |-> AllHist(1)])

(* ---- facts the property text names, stated on the value model ----------------------------------- *)
ASSUME Conv("Int", St("1")) = I(1) /\ Conv("Int", Fl(3)) = I(1) /\ Conv("Int", Bo(TRUE)) = I(1)
ASSUME Conv("Int", St("")) = None /\ Conv("Int", None) = None /\ Conv("Int", St("x")) = Alt("x")
ASSUME PyEq(I(1), Fl(2)) /\ PyEq(I(1), Bo(TRUE)) /\ ~PyEq(I(1), St("1")) /\ ~PyEq(None, I(0)) /\ ~PyEq(Alt("x"), St("x"))
ASSUME Cmp(None, I(1)) = -1 /\ Cmp(I(1), Fl(3)) = -1 /\ Cmp(St("a"), St("b")) = -1 /\ Cmp(St(""), St("1")) = -1
ASSUME Conv("Ref", Bo(TRUE)) = I(1) /\ Conv("Ref", None) = I(0) /\ Conv("Text", I(1)) = St("1")

(* ---- the state machine ------------------------------------------------------------------------- *)
VARIABLES f, init, edits, ss
vars == <<f, init, edits, ss>>

Init == \E k \in 1..Len(Fams) :
          /\ f = k /\ init \in Inits(Fams[k]) /\ edits = <<>> /\ ss = Start(Fams[k], init)
Next == /\ Len(edits) < Fams[f].depth
        /\ \E e \in Moves(Fams[f], ss, edits) :
             /\ edits' = Append(edits, e)
             /\ ss' = Append(ss, StepTo(ss, e))
        /\ UNCHANGED <<f, init>>
Spec == Init /\ [][Next]_vars

Cur == ss[Len(ss)]
Tab == [ty |-> Cur.ty, rows |-> Ranked(Cur.rows)]

SpecSane ==
  \A j \in 1..Len(Fams[f].obs) : \A i \in 1..Len(Cur.probes) :
    LET o == ObsStd[Fams[f].obs[j]]
    IN Ok(Tab, o, Cur.probes[i], RefCell(Tab, o, Cur.probes[i]))

OrderSane ==
  \A j \in 1..Len(Fams[f].obs) :
    LET spec == SortSpec(ObsStd[Fams[f].obs[j]], TRUE)
        R == RowSet(Tab)
    IN Comparable(Tab, R, spec) =>
         /\ \A x \in R : ~Before(Tab, spec, x, x)
         /\ \A x, y \in R : x # y => (Before(Tab, spec, x, y) <=> ~Before(Tab, spec, y, x))
         /\ \A x, y, z \in R : Before(Tab, spec, x, y) /\ Before(Tab, spec, y, z) => Before(Tab, spec, x, z)

ModelSane ==
  /\ \A x, y \in 1..Len(Cur.rows) : x < y => Cur.rows[x].id < Cur.rows[y].id
  /\ \A x, y \in 1..Len(Cur.rows) : x # y => Cur.rows[x].pos # Cur.rows[y].pos
  /\ ss = States(Fams[f].probes, init, edits)
=============================================================================
