------------------------------- MODULE BundleSem ------------------------------
(***************************************************************************)
(* Bundle processing of the Grist data engine (Engine.apply_user_actions): *)
(*   checkpoint -> apply each user action (each expands into doc actions;  *)
(*   every doc action records stored + direct, mutates, records its undo)  *)
(*   -> on an exception: roll back by applying the undo suffix in reverse, *)
(*      trim the lists, recalculate, re-raise                              *)
(*   -> recalculate -> flush calc changes into stored/undo (never direct)  *)
(*   -> reply.                                                             *)
(* Then the follow-up calls: ApplyUndoActions(undo) and                    *)
(* ApplyDocActions(stored) of a completed bundle.                          *)
(*                                                                         *)
(* The document is one table T with a data column A, optionally a formula  *)
(* column F = $A + 1, rows in Rows.  Small on purpose: the point is the    *)
(* control structure - where a failure can strike and what is left behind. *)
(*                                                                         *)
(* Properties (design level): C04 FailedLeavesNoTrace, C02 ReplayFaithful, *)
(* C01 UndoRestores, C03 RedoReproduces, C31 DirectParallel/CalcNeverDirect*)
(***************************************************************************)
EXTENDS Naturals, Integers, Sequences, FiniteSets, TLC

CONSTANTS Rows,      \* e.g. {1, 2}
          Vals,      \* e.g. {0, 1}
          MaxUAs     \* maximal number of user actions in a bundle

Absent == -1
NoF    == -9         \* value of F cells while the column does not exist

(***************************************************************************)
(* Documents and doc actions                                               *)
(***************************************************************************)
\* doc = [a : [Rows -> Vals \cup {Absent}], hasF : BOOLEAN, f : [Rows -> Int]]
\* f[r] is the STORED value of the formula cell (what fetch_table reports)
Exists(d, r) == d.a[r] # Absent
FUpToDate(d) == \A r \in Rows : d.f[r] = (IF d.hasF /\ Exists(d, r) THEN d.a[r] + 1 ELSE NoF)
Recalc(d) == [d EXCEPT !.f = [r \in Rows |-> IF d.hasF /\ Exists(d, r) THEN d.a[r] + 1 ELSE NoF]]

EmptyDoc == [a |-> [r \in Rows |-> Absent], hasF |-> FALSE, f |-> [r \in Rows |-> NoF]]

DA(n, r, v) == [n |-> n, r |-> r, v |-> v]

\* a doc action is applicable iff its precondition holds (docactions.py asserts it)
Applicable(d, x) ==
  CASE x.n = "add"  -> ~Exists(d, x.r)
    [] x.n = "upd"  -> Exists(d, x.r)
    [] x.n = "rem"  -> TRUE                    \* removing a missing row is a no-op
    [] x.n = "addF" -> ~d.hasF
    [] x.n = "remF" -> d.hasF
    [] x.n = "setF" -> d.hasF /\ Exists(d, x.r)  \* calc action: stored formula value
    [] OTHER -> FALSE

\* The mutation of a doc action.  Data actions leave dependent formula cells STALE (dirty) until the
\* recalculation; schema actions re-create the column with default (stale) values.
ApplyDA(d, x) ==
  CASE x.n = "add"  -> [d EXCEPT !.a[x.r] = x.v]
    [] x.n = "upd"  -> [d EXCEPT !.a[x.r] = x.v]
    [] x.n = "rem"  -> [d EXCEPT !.a[x.r] = Absent, !.f[x.r] = NoF]
    [] x.n = "addF" -> [d EXCEPT !.hasF = TRUE, !.f = [r \in Rows |-> IF Exists(d, r) THEN 0 ELSE NoF]]
    [] x.n = "remF" -> [d EXCEPT !.hasF = FALSE, !.f = [r \in Rows |-> NoF]]
    [] x.n = "setF" -> [d EXCEPT !.f[x.r] = x.v]
    [] OTHER -> d

\* The undo actions a doc action records (docactions.py), in the order they are appended to undo.
UndoOf(d, x) ==
  CASE x.n = "add"  -> <<DA("rem", x.r, 0)>>
    [] x.n = "upd"  -> <<DA("upd", x.r, d.a[x.r])>>
    [] x.n = "rem"  -> IF Exists(d, x.r) THEN <<DA("add", x.r, d.a[x.r])>> ELSE <<>>
    [] x.n = "addF" -> <<DA("remF", 0, 0)>>
    [] x.n = "remF" -> <<DA("addF", 0, 0)>>
    [] x.n = "setF" -> <<DA("setF", x.r, d.f[x.r])>>
    [] OTHER -> <<>>

(***************************************************************************)
(* User actions expand into doc actions; "bad" is a request that fails     *)
(* validation before any doc action.                                       *)
(***************************************************************************)
UserActions ==
  {DA("add", r, v) : r \in Rows, v \in Vals} \cup {DA("upd", r, v) : r \in Rows, v \in Vals}
  \cup {DA("rem", r, 0) : r \in Rows} \cup {DA("addF", 0, 0), DA("remF", 0, 0), DA("bad", 0, 0)}

Bundles == UNION {[1..n -> UserActions] : n \in 1..MaxUAs}

Rev(s) == [i \in 1..Len(s) |-> s[Len(s) + 1 - i]]

(***************************************************************************)
(* Functional semantics of one call (used by the state machine below and   *)
(* by the conformance judge Trace_Bundle).                                 *)
(*   RunFrom(...) applies the doc actions of the user actions one by one;  *)
(*   `fault` = the number of the doc-action boundary at which an injected  *)
(*   exception strikes: 2k-1 = before the k-th doc action, 2k = after it;  *)
(*   0 = no injected fault.                                                *)
(* Result: [ok, doc, stored, direct, undo]                                 *)
(***************************************************************************)
RECURSIVE ApplyList(_, _)
ApplyList(d, xs) == IF xs = <<>> THEN d ELSE ApplyList(ApplyDA(d, Head(xs)), Tail(xs))

\* UpdateRecord trims values that equal what the cell already holds (Engine.trim_update_action); a missing
\* row reads as the type default 0, so an update of a missing row WITH the default value is silently
\* dropped, while any other value fails in the doc action.
IsNoop(d, x) == x.n = "upd" /\ ((Exists(d, x.r) /\ d.a[x.r] = x.v) \/ (~Exists(d, x.r) /\ x.v = 0))

RECURSIVE RunFrom(_, _, _, _, _, _, _)
RunFrom(d, uas, i, stored, undo, fault, k) ==
  \* k = number of doc actions applied so far in this call
  IF i > Len(uas) THEN [ok |-> TRUE, doc |-> d, stored |-> stored, undo |-> undo]
  ELSE LET x == uas[i]
       IN IF IsNoop(d, x) THEN RunFrom(d, uas, i + 1, stored, undo, fault, k)
          ELSE IF x.n = "bad" \/ ~Applicable(d, x) \/ fault = 2 * (k + 1) - 1
          THEN [ok |-> FALSE, doc |-> d, stored |-> stored, undo |-> undo]
          ELSE LET d2 == ApplyDA(d, x)
                   u2 == undo \o UndoOf(d, x)
                   s2 == Append(stored, x)
               IN IF fault = 2 * (k + 1)
                  THEN [ok |-> FALSE, doc |-> d2, stored |-> s2, undo |-> u2]
                  ELSE RunFrom(d2, uas, i + 1, s2, u2, fault, k + 1)

\* calc changes: formula cells whose stored value differs from the recalculated one
CalcActions(d) ==
  LET rs == {r \in Rows : d.hasF /\ Exists(d, r) /\ d.f[r] # d.a[r] + 1}
      RECURSIVE Mk(_)
      Mk(S) == IF S = {} THEN <<>>
               ELSE LET r == CHOOSE x \in S : \A y \in S : x <= y
                    IN <<DA("setF", r, d.a[r] + 1)>> \o Mk(S \ {r})
  IN Mk(rs)

RECURSIVE UndoList(_, _)
UndoList(d, xs) == IF xs = <<>> THEN <<>> ELSE UndoOf(d, Head(xs)) \o UndoList(ApplyDA(d, Head(xs)), Tail(xs))

\* One whole call.  `revertRecalc` = whether the engine recalculates after reverting a failed bundle
\* (TRUE models the repaired engine; FALSE the engine before commit d5da241, kept to show that the
\* model exposes that defect: see MC_Bundle_prefix.cfg).
Call(d, uas, fault, revertRecalc) ==
  LET run == RunFrom(d, uas, 1, <<>>, <<>>, fault, 0)
  IN IF run.ok
     THEN LET calc == CalcActions(run.doc)
              post == ApplyList(run.doc, calc)
          IN [ok |-> TRUE, doc |-> post,
              stored |-> run.stored \o calc,
              direct |-> [j \in 1..(Len(run.stored) + Len(calc)) |-> j <= Len(run.stored)],
              undo |-> run.undo \o UndoList(run.doc, calc)]
     ELSE LET back == ApplyList(run.doc, Rev(run.undo))
          IN [ok |-> FALSE, doc |-> IF revertRecalc THEN Recalc(back) ELSE back,
              stored |-> <<>>, direct |-> <<>>, undo |-> <<>>]

\* number of doc-action boundaries a bundle has on a document (2 per applied doc action)
Boundaries(d, uas) == 2 * Len(RunFrom(d, uas, 1, <<>>, <<>>, 0, 0).stored)

\* Raw replays: ApplyUndoActions applies the list in reverse; ApplyDocActions applies it in order.
CallRaw(d, xs) ==
  LET ok == LET RECURSIVE Ok(_, _)
                Ok(dd, ys) == ys = <<>> \/ (Applicable(dd, Head(ys)) /\ Ok(ApplyDA(dd, Head(ys)), Tail(ys)))
            IN Ok(d, xs)
      d2 == ApplyList(d, xs)
      calc == CalcActions(d2)
  IN [ok |-> ok, doc |-> IF ok THEN ApplyList(d2, calc) ELSE d,
      stored |-> IF ok THEN xs \o calc ELSE <<>>,
      undo |-> IF ok THEN UndoList(d, xs) \o UndoList(d2, calc) ELSE <<>>]
=============================================================================
