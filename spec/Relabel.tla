------------------------------ MODULE Relabel ------------------------------
(***************************************************************************)
(* C20 - row positions stay unique and order-preserving                    *)
(* (sandbox/grist/relabeling.py, prepare_inserts).                          *)
(*                                                                         *)
(* The property speaks only about ORDER, DISTINCTNESS and FINITENESS of    *)
(* floating-point positions, so every float is replaced by a value         *)
(*      <<kind, rank>>                                                     *)
(* kind 0 = finite, its rank among all finite floats of the case decides   *)
(* the order;  kind -1 = -infinity;  kind 1 = +infinity;  kind 2 = NaN or   *)
(* not a number at all (rank is 0 for the last three).  This abstraction   *)
(* is exact for the clauses below (they only compare values).              *)
(*                                                                         *)
(* An input is  [old : sequence of values, the existing positions in list  *)
(*                     order,                                              *)
(*               req : sequence of values, the requested positions in      *)
(*                     batch order].                                       *)
(* An output is [adj : sequence of <<index0, kind, rank>>, the adjustments *)
(*                     to existing rows (index0 is the 0-based index into  *)
(*                     the sorted list, as prepare_inserts returns it),    *)
(*               new : sequence of values, the positions given to the new  *)
(*                     rows, in batch order].                              *)
(* Clauses(in, out) is the admissible-output RELATION of the property.     *)
(***************************************************************************)
EXTENDS Naturals, Integers, Sequences, FiniteSets

IsFinite(v) == v[1] = 0
IsNum(v)    == v[1] \in {-1, 0, 1}
\* strict order of the extended reals; nothing is below or above a NaN
LT(a, b) == /\ IsNum(a) /\ IsNum(b)
            /\ \/ a[1] < b[1]
               \/ a[1] = 0 /\ b[1] = 0 /\ a[2] < b[2]
EQ(a, b) == /\ IsNum(a) /\ IsNum(b)
            /\ a[1] = b[1]
            /\ (a[1] # 0 \/ a[2] = b[2])

NOld(in) == Len(in.old)
NReq(in) == Len(in.req)

\* Precondition stated by the property: existing positions finite and strictly increasing;
\* requested positions are numbers or infinities (never NaN).
Pre(in) ==
  /\ \A j \in 1..NOld(in) : IsFinite(in.old[j])
  /\ \A j \in 1..(NOld(in) - 1) : LT(in.old[j], in.old[j + 1])
  /\ \A k \in 1..NReq(in) : IsNum(in.req[k])

\* Position of existing row j (1-based) once the adjustments are applied (last one wins).
Final(in, out, j) ==
  IF \E a \in 1..Len(out.adj) : out.adj[a][1] = j - 1
  THEN LET a == CHOOSE a \in 1..Len(out.adj) :
                  out.adj[a][1] = j - 1 /\ \A b \in (a + 1)..Len(out.adj) : out.adj[b][1] # j - 1
       IN <<out.adj[a][2], out.adj[a][3]>>
  ELSE in.old[j]

\* Positions of all existing rows after the adjustments, in list order.
Finals(in, out) == [j \in 1..NOld(in) |-> Final(in, out, j)]

\* (0) one new position per request; adjustments name existing rows
Shape(in, out)  == Len(out.new) = NReq(in)
Target(in, out) == \A a \in 1..Len(out.adj) : out.adj[a][1] \in 0..(NOld(in) - 1)

\* Below, old/req are the input, fin = Finals(in, out), new = out.new (same length as req).

\* (1) "the computed adjustments keep existing rows in their order"
KeepOrder(fin) ==
  \A i, j \in 1..Len(fin) : i < j => LT(fin[i], fin[j])

\* (2) "give all rows finite ... positions"
AllFinite(fin, new) ==
  /\ \A j \in 1..Len(fin) : IsFinite(fin[j])
  /\ \A k \in 1..Len(new) : IsFinite(new[k])

\* (3) "... distinct positions"
AllDistinct(fin, new) ==
  /\ \A i, j \in 1..Len(fin) : i < j => ~EQ(fin[i], fin[j])
  /\ \A k, m \in 1..Len(new) : k < m => ~EQ(new[k], new[m])
  /\ \A j \in 1..Len(fin), k \in 1..Len(new) : ~EQ(fin[j], new[k])

\* (4) "place each new row where its requested position falls (before existing rows with an
\*     equal position)": after every existing row whose old position is below the request,
\*     before every existing row whose old position is equal or above.
Placed(old, req, fin, new) ==
  \A k \in 1..Len(req), j \in 1..Len(old) :
    IF LT(old[j], req[k]) THEN LT(fin[j], new[k]) ELSE LT(new[k], fin[j])

\* (5) "new rows keeping the order of their requested positions".  The property says nothing
\*     about the mutual order of new rows with EQUAL requests (only that they are distinct).
NewOrder(req, new) ==
  \A k, m \in 1..Len(req) : LT(req[k], req[m]) => LT(new[k], new[m])

Clauses(in, out) ==
  IF ~Shape(in, out) THEN {"C20.shape"}
  ELSE LET old == in.old
           req == in.req
           fin == Finals(in, out)
           new == out.new
       IN (IF Target(in, out)             THEN {} ELSE {"C20.target"})    \cup
          (IF KeepOrder(fin)              THEN {} ELSE {"C20.keeporder"}) \cup
          (IF AllFinite(fin, new)         THEN {} ELSE {"C20.finite"})    \cup
          (IF AllDistinct(fin, new)       THEN {} ELSE {"C20.distinct"})  \cup
          (IF Placed(old, req, fin, new)  THEN {} ELSE {"C20.place"})     \cup
          (IF NewOrder(req, new)          THEN {} ELSE {"C20.neworder"})

Ok(in, out) == Clauses(in, out) = {}

(***************************************************************************)
(* Reference solution: renumber everything 1..n+m (equal requests in batch *)
(* order).  Used only to show that Ok is satisfiable on every input of the *)
(* bounded model (SpecSane), and - mirrored - that it is not trivially     *)
(* true (SpecTight).                                                       *)
(***************************************************************************)
PosOld(in, j) ==
  j + Cardinality({k \in 1..NReq(in) : ~LT(in.old[j], in.req[k])})
PosNew(in, k) ==
  1 + Cardinality({j \in 1..NOld(in) : LT(in.old[j], in.req[k])})
    + Cardinality({m \in 1..NReq(in) : LT(in.req[m], in.req[k]) \/ (EQ(in.req[m], in.req[k]) /\ m < k)})

Ref(in) == [adj |-> [j \in 1..NOld(in) |-> <<j - 1, 0, PosOld(in, j)>>],
            new |-> [k \in 1..NReq(in) |-> <<0, PosNew(in, k)>>]]

\* the same rows in exactly the opposite order
Mirror(in) ==
  LET t == NOld(in) + NReq(in) + 1
  IN [adj |-> [j \in 1..NOld(in) |-> <<j - 1, 0, t - PosOld(in, j)>>],
      new |-> [k \in 1..NReq(in) |-> <<0, t - PosNew(in, k)>>]]

\* inputs on which the opposite order is not admissible
OrderMatters(in) ==
  \/ NOld(in) >= 2
  \/ NOld(in) >= 1 /\ NReq(in) >= 1
  \/ \E k, m \in 1..NReq(in) : LT(in.req[k], in.req[m])

=============================================================================
