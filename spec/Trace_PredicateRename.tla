------------------------ MODULE Trace_PredicateRename ------------------------
(* Judges recorded renames in documents the real engine built (harness/fn_predrename.py) against    *)
(* PredicateRename.  The shape of a case is described there (section "the relation").               *)
(* Verdict per case: failed clauses "C17.*" (the property) and "SPEC.*" (the renderer, the harness   *)
(* or the specification disagree with the recording on what was set up: machinery), plus the         *)
(* entries the clauses failed on.                                                                    *)
EXTENDS PredicateRename, TLC, Json, IOUtils
Cases == JsonDeserialize(IOEnv.TRACE_FILE)
NC == Len(Cases)
VARIABLES i, bad

\* what was set up is what the design says: the text of every entry is the rendered text, its tree is
\* the abstract expression, the tokens spell the text, the user attributes / resources are the document's
SetupOk(c) ==
  LET inp == c.inp  out == c.out IN
  /\ Len(out.entries) = Len(inp.doc.entries)
  /\ \A k \in 1..Len(out.entries) :
       LET e == inp.doc.entries[k]  x == out.entries[k]  tx == inp.texts[e.txt] IN
       /\ x.b.present
       /\ x.b.text = tx.text
       /\ Len(tx.toks) > 0 => Concat(tx.toks, 1) = x.b.cps
       /\ tx.expr # NoExpr =>
            /\ x.b.pexc = ""
            /\ x.b.tree = (IF tx.hascmt THEN <<"Comment", tx.expr, tx.comment>> ELSE tx.expr)
            \* the renderer's token annotations and the tree agree on what each step renames
            /\ CountsAgree(tx.expr, tx.toks, CtxOf(inp, e), inp.steps, 1)
  /\ Len(out.attrs) = Len(inp.doc.attrs)
  /\ \A k \in 1..Len(out.attrs) :
       LET d == inp.doc.attrs[k]  b == out.attrs[k].b IN
       b.ok /\ b.name = d.name /\ b.tableId = d.tableId /\ b.lookupColId = d.lookupColId /\ b.charId = d.charId
  /\ Len(out.res) = Len(inp.doc.res)
  /\ \A k \in 1..Len(out.res) : out.res[k].b = inp.doc.res[k]

Judge(c) ==
  (IF SetupOk(c) THEN {} ELSE {"SPEC.setup"})
  \cup (IF c.out.exc = "" /\ ~c.out.renamed THEN {"SPEC.rename"} ELSE {})
  \cup Clauses17(c.inp, c.out)

Init == i = 0 /\ bad = <<>> /\ (NC > 0 \/ JsonSerialize(IOEnv.OUT_FILE, <<>>))
Next ==
  /\ i < NC
  /\ i' = i + 1
  /\ bad' = LET j == Judge(Cases[i + 1])
            IN IF j = {} THEN bad
               ELSE Append(bad, [i |-> i + 1, c |-> j, e |-> FailedEntries(Cases[i + 1].inp, Cases[i + 1].out)])
  /\ (i' < NC \/ JsonSerialize(IOEnv.OUT_FILE, bad'))
Spec == Init /\ [][Next]_<<i, bad>>
View == i
=============================================================================
