SPECIFICATION Spec
CONSTANTS Rows = {1, 2}
          Vals = {0, 1}
          RevertRecalc = FALSE
          MaxUAs = 2
INVARIANT FailedLeavesNoTrace
INVARIANT QuietAfterFailure
INVARIANT ReplayFaithful
INVARIANT AlwaysRecalculated
INVARIANT UndoRestores
INVARIANT RedoReproduces
INVARIANT DirectParallel
INVARIANT CalcNeverDirect
CHECK_DEADLOCK FALSE
