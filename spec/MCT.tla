---- MODULE MCT ----
EXTENDS MC_FormulaText
Inv1 == WFF(Items[i].t)
Inv2 == LET t == Items[i].t
            in == [tree |-> t, rows |-> Rows, newrow |-> NewRow]
            E == Expect(in, TRUE) IN \A r \in 1..5 : IsCell(E.f[r])
Inv3 == LET t == Items[i].t
            in == [tree |-> t, rows |-> Rows, newrow |-> NewRow]
            IN FOk(in, Ref(in, TRUE))
====
