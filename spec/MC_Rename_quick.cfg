INIT Init
NEXT Next
CONSTANTS Level = 1
          Full = FALSE
          Lanes = 32
INVARIANT SpecSane
CHECK_DEADLOCK FALSE
