INIT Init
NEXT Next
CONSTANTS Level = 1
          Full = FALSE
INVARIANT SpecSane
CHECK_DEADLOCK FALSE
