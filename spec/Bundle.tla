------------------------------- MODULE Bundle -------------------------------
(***************************************************************************)
(* State machine over the functional semantics of BundleSem.tla: from      *)
(* every document with up-to-date formula cells, one call (with a fault at *)
(* any doc-action boundary, or none), then its undo, then its redo.        *)
(* Properties: C04 FailedLeavesNoTrace / QuietAfterFailure, C02            *)
(* ReplayFaithful, C01 UndoRestores, C03 RedoReproduces, C31               *)
(* DirectParallel / CalcNeverDirect, and AlwaysRecalculated, which makes   *)
(* the one-call exploration an inductive argument for all histories.       *)
(***************************************************************************)
EXTENDS BundleSem

CONSTANT RevertRecalc  \* BOOLEAN: the engine recalculates after reverting a failed bundle (TRUE = repaired)

(***************************************************************************)
(* State machine: a history of calls on one document                       *)
(***************************************************************************)
VARIABLES doc,      \* the engine's document
          mirror,   \* an independent consumer's copy, advanced only by stored actions
          last,     \* [pre, post, stored, undo, direct, ok] of the last ordinary bundle ("none" before)
          phase,    \* "idle" | "done" (after a bundle) | "undone"
          depth,
          revertRecalc

vars == <<doc, mirror, last, phase, depth, revertRecalc>>

NoLast == [pre |-> EmptyDoc, post |-> EmptyDoc, stored |-> <<>>, undo |-> <<>>, direct |-> <<>>, ok |-> TRUE,
           fault |-> 0]

\* Every document with up-to-date formula cells is an initial state: together with the invariant
\* AlwaysRecalculated (every call ends in such a document) one call + its undo + its redo from every
\* such document is an inductive argument for histories of any length.
UpToDateDocs == {Recalc([a |-> av, hasF |-> h, f |-> [r \in Rows |-> NoF]]) :
                   av \in [Rows -> Vals \cup {Absent}], h \in BOOLEAN}

Init ==
  /\ doc \in UpToDateDocs /\ mirror = doc /\ last = NoLast /\ phase = "idle" /\ depth = 0
  /\ revertRecalc = RevertRecalc

DoBundle ==
  /\ phase = "idle" /\ depth = 0
  /\ \E uas \in Bundles :
       \E fault \in 0..Boundaries(doc, uas) :
         LET c == Call(doc, uas, fault, revertRecalc)
         IN /\ doc' = c.doc
            /\ mirror' = ApplyList(mirror, c.stored)
            /\ last' = [pre |-> doc, post |-> c.doc, stored |-> c.stored, undo |-> c.undo,
                        direct |-> c.direct, ok |-> c.ok, fault |-> fault]
            /\ phase' = IF c.ok THEN "done" ELSE "failed"
  /\ depth' = depth + 1
  /\ UNCHANGED revertRecalc

UndoBundle ==
  /\ phase = "done"
  /\ LET c == CallRaw(doc, Rev(last.undo))
     IN /\ doc' = c.doc
        /\ mirror' = ApplyList(mirror, c.stored)
        /\ last' = [last EXCEPT !.ok = c.ok]
  /\ phase' = "undone"
  /\ UNCHANGED <<depth, revertRecalc>>

RedoBundle ==
  /\ phase = "undone" /\ last.ok /\ depth = 1
  /\ LET c == CallRaw(doc, last.stored)
     IN /\ doc' = c.doc
        /\ mirror' = ApplyList(mirror, c.stored)
        /\ last' = [last EXCEPT !.ok = c.ok, !.undo = c.undo]
  /\ phase' = "done"
  /\ depth' = 2
  /\ UNCHANGED revertRecalc

Next == DoBundle \/ UndoBundle \/ RedoBundle

Spec == Init /\ [][Next]_vars

(***************************************************************************)
(* Properties                                                              *)
(***************************************************************************)
\* C04: a failed call leaves the document exactly as before (formula values included)
FailedLeavesNoTrace == phase = "failed" => doc = last.pre

\* C04: ... and leaves nothing to recalculate (a following Calculate is silent)
QuietAfterFailure == phase = "failed" => CalcActions(doc) = <<>>

\* C02: replaying the stored actions reproduces the document, formula results included
ReplayFaithful == mirror = doc

\* formula cells are always up to date between calls
AlwaysRecalculated == FUpToDate(doc)

\* C01: undo restores the exact prior document
UndoRestores == phase = "undone" => (last.ok /\ doc = last.pre)

\* C03: redo after undo reproduces the post-bundle document
RedoReproduces == (phase = "done" /\ last.ok) => doc = last.post

\* C31: flags parallel to stored; calc actions never direct
DirectParallel == Len(last.direct) = Len(last.stored) \/ phase = "undone"
CalcNeverDirect == \A j \in 1..Len(last.direct) :
                     (j <= Len(last.stored) /\ last.stored[j].n = "setF") => ~last.direct[j]

=============================================================================
