-------------------------- MODULE Trace_RenameChoices --------------------------
(* Judges recorded RenameChoices user actions of the real engine against RenameChoices!Clauses.     *)
(* Case: [inp  |-> the design input (not read here),                                                *)
(*        typ  |-> type of the column, map |-> the rename map that was passed, cref |-> the column's *)
(*                 row id in _grist_Tables_column,                                                  *)
(*        b, a |-> the document before / after the action (RenameChoices.tla: state),               *)
(*        exc  |-> exception class name or "",                                                      *)
(*        d0   |-> digest of the whole document before the action,                                  *)
(*        un   |-> [exc, d]: exception of ApplyUndoActions of the returned undo ("" if none) and    *)
(*                 digest of the whole document after it]                                           *)
EXTENDS RenameChoices, TLC, Json, IOUtils
Cases == JsonDeserialize(IOEnv.TRACE_FILE)
N == Len(Cases)
VARIABLES i, bad
Judge(c) ==
  IF c.exc # "" THEN {"C39.raised"}
  ELSE Clauses(c.typ, c.map, c.cref, c.b, c.a) \cup
       (IF c.un.exc = "" /\ c.un.d = c.d0 THEN {} ELSE {"C39.undo"})
Init == i = 0 /\ bad = <<>> /\ (N > 0 \/ JsonSerialize(IOEnv.OUT_FILE, <<>>))
Next ==
  /\ i < N
  /\ i' = i + 1
  /\ bad' = LET j == Judge(Cases[i + 1])
            IN IF j = {} THEN bad ELSE Append(bad, [i |-> i + 1, c |-> j])
  /\ (i' < N \/ JsonSerialize(IOEnv.OUT_FILE, bad'))
Spec == Init /\ [][Next]_<<i, bad>>
View == i
=============================================================================
