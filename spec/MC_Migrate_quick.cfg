INIT Init
NEXT Next
CONSTANTS Classes = {"nonjson", "empty", "jnum", "jstr", "jnull", "jtrue", "jlist1", "jlistc", "lok",
                     "dstr", "dlist", "dhuge", "ddict", "dok"}
          PopLow = 1
          PopHigh = 1
          OneStep = 0
INVARIANT SpecSane
