----------------------------- MODULE Trace_Ident -----------------------------
(* Judges recorded calls of the real identifiers.pick_table_ident / pick_col_ident /             *)
(* pick_col_ident_list against Ident!Clauses.  Names are sequences of code points.               *)
(* Cases: <<[inp |-> [fn |-> "table"|"col"|"list",                                               *)
(*                    reqs |-> <<[none |-> BOOLEAN, s |-> <<cp, ...>>], ...>>,                     *)
(*                    avoid |-> <<<<cp, ...>>, ...>>],                                             *)
(*           out |-> <<<<cp, ...>>, ...>>   (one chosen id per request),                           *)
(*           exc |-> ""]>>                                                                        *)
(* The same judge serves ids observed in engine histories: harness/fn_ident.py make_case().      *)
EXTENDS Ident, TLC, Json, IOUtils
Cases == JsonDeserialize(IOEnv.TRACE_FILE)
N == Len(Cases)
VARIABLES i, bad
SeqRange(s) == {s[k] : k \in 1..Len(s)}
Judge(c) ==
  IF c.exc # "" THEN {"C21.raised"}
  ELSE Clauses([fn |-> c.inp.fn, reqs |-> c.inp.reqs, avoid |-> SeqRange(c.inp.avoid)], c.out)
Init == i = 0 /\ bad = <<>> /\ (N > 0 \/ JsonSerialize(IOEnv.OUT_FILE, <<>>))
Next ==
  /\ i < N
  /\ i' = i + 1
  /\ bad' = LET j == Judge(Cases[i + 1])
            IN IF j = {} THEN bad ELSE Append(bad, [i |-> i + 1, c |-> j])
  /\ (i' < N \/ JsonSerialize(IOEnv.OUT_FILE, bad'))
Spec == Init /\ [][Next]_<<i, bad>>
View == i
=============================================================================
