------------------------------- MODULE Recalc -------------------------------
(***************************************************************************)
(* The recompute scheduler of the Grist data engine                        *)
(*   engine.py: _bring_all_up_to_date / _update_loop / _recompute_step /   *)
(*              _recompute_one_cell / _make_sorted_work_items              *)
(* one action per critical section of the code, for C06 (results do not    *)
(* depend on evaluation order) and C18 (circular references terminate and  *)
(* are reported on the cycle).                                             *)
(*                                                                         *)
(* A document is one table with formula columns Cols and rows Rows.  The   *)
(* PROGRAM is chosen nondeterministically in Init: every formula column    *)
(* reads a set of same-row cells (same[c]) and a set of cells of row 1     *)
(* through a reference (cross[c]); reads happen in column order.  So TLC   *)
(* explores every dependency graph in the bound, cyclic ones included.     *)
(* The SCHEDULE is the scheduler's free choice: the order of the initial   *)
(* work items and of every rebuilt work list (today the code sorts by      *)
(* name; the property says the result may not depend on it).               *)
(*                                                                         *)
(* Values: a cell that is evaluated without error holds 1 + the sum of the *)
(* values it read; Circ (-1) is the CircularRefError value, which          *)
(* propagates to every reader (column.get_cell_value re-raises it).        *)
(***************************************************************************)
EXTENDS RecalcSem, TLC

CONSTANTS ColSeq,      \* sequence of formula column names; also the read order inside a formula
          Rows,        \* set of row ids, 1..n
          AllowCross   \* BOOLEAN: programs may read row 1 of a column from any row

Cols  == {ColSeq[i] : i \in 1..Len(ColSeq)}
corder == ColSeq
Cells == Cols \X Rows

VARIABLES
  same,      \* program: same[c] \subseteq Cols, the same-row reads of column c
  cross,     \* program: cross[c] \subseteq Cols, reads of row 1 of a column
  dirty,     \* recompute_map: cells that still have to be evaluated
  done,      \* _recompute_done_map: cells evaluated in this update
  locked,    \* _locked_cells
  stack,     \* work items: sequence of [node, rows, locks]; the top is the LAST element
  cur,       \* the work item being processed ([node, rows, locks]) or NoItem
  rowsq,     \* rows still to visit for cur: sequence of [row, required]
  val,       \* cell values
  doneCnt,   \* _recompute_done_counter
  expCnt,    \* _expected_done_counter
  pc         \* "start" | "pop" | "rows" | "unlock" | "done" | "fail1" | "fail2"

vars == <<same, cross, dirty, done, locked, stack, cur, rowsq, val, doneCnt, expCnt, pc>>

NoItem == [node |-> "none", rows |-> <<>>, locks |-> <<>>]

(***************************************************************************)
(* Denotational meaning of a program (the oracle): does a cell reach a     *)
(* cycle, and if not, its value.                                           *)
(***************************************************************************)
ReadsOf(c, r) == PReadsOf(same, cross, c, r)
Reach(cell) == PReach(same, cross, cell)
OnCycle(cell) == POnCycle(same, cross, cell)
ReachesCycle(cell) == PReachesCycle(same, cross, cell)
Sem(cell) == PSem(same, cross, cell)

(***************************************************************************)
(* Helpers                                                                 *)
(***************************************************************************)
Perms(S) == {f \in [1..Cardinality(S) -> S] : \A i, j \in 1..Cardinality(S) : i # j => f[i] # f[j]}

RECURSIVE SortedSeq(_)
SortedSeq(S) == IF S = {} THEN <<>>
                ELSE LET m == CHOOSE x \in S : \A y \in S : x <= y IN <<m>> \o SortedSeq(S \ {m})

DirtyRows(n) == {r \in Rows : <<n, r>> \in dirty}
DirtyNodes  == {c \in Cols : DirtyRows(c) # {}}

\* The reads of a formula in evaluation order: same-row reads in column order, then cross reads.
ReadSeq(c, r) ==
  LET ss == SelectSeq(corder, LAMBDA d : d \in same[c])
      cs == SelectSeq(corder, LAMBDA d : d \in cross[c])
  IN [i \in 1..Len(ss) |-> <<ss[i], r>>] \o [i \in 1..Len(cs) |-> <<cs[i], 1>>]

\* A formula reads its cells one after the other.  The first read of a DIRTY cell raises OrderError
\* for that cell; the first read of a cell holding CircularRefError re-raises that error (the later
\* reads never happen); otherwise the result is 1 + the sum of the values read.
\* Scan(c, r) = [k |-> "order", cell] | [k |-> "circ"] | [k |-> "value", v]
Scan(c, r) ==
  LET rs == ReadSeq(c, r)
      RECURSIVE Go(_, _)
      Go(i, acc) ==
        IF i > Len(rs) THEN [k |-> "value", v |-> acc, cell |-> <<c, r>>]
        ELSE IF rs[i] \in dirty THEN [k |-> "order", v |-> 0, cell |-> rs[i]]
        ELSE IF val[rs[i]] = Circ THEN [k |-> "circ", v |-> Circ, cell |-> rs[i]]
        ELSE Go(i + 1, acc + val[rs[i]])
  IN Go(1, 1)

FirstDirtyRead(c, r) == IF Scan(c, r).k = "order" THEN <<Scan(c, r).cell>> ELSE <<>>
EvalValue(c, r) == Scan(c, r).v

(***************************************************************************)
(* Init: choose the program; everything is dirty (a bundle that just       *)
(* defined all formula columns, or a document being loaded).               *)
(***************************************************************************)
Init ==
  /\ same \in [Cols -> SUBSET Cols]
  /\ cross \in [Cols -> IF AllowCross THEN SUBSET Cols ELSE {{}}]
  /\ dirty = Cells
  /\ done = {}
  /\ locked = {}
  /\ stack = <<>>
  /\ cur = NoItem
  /\ rowsq = <<>>
  /\ val = [x \in Cells |-> Unset]
  /\ doneCnt = 0
  /\ expCnt = 0
  /\ pc = "start"

(***************************************************************************)
(* _make_sorted_work_items: the scheduler's free choice of order.          *)
(* Items are processed from the end of the list.                           *)
(***************************************************************************)
MakeWorkItems ==
  /\ pc = "start"
  /\ \E p \in Perms(DirtyNodes) :
       stack' = [i \in 1..Len(p) |-> [node |-> p[i], rows |-> <<>>, locks |-> <<>>]]
  /\ doneCnt' = 0
  /\ expCnt' = 0
  /\ pc' = "pop"
  /\ UNCHANGED <<same, cross, dirty, done, locked, cur, rowsq, val>>

(***************************************************************************)
(* while work_items: node, row_ids, locks = work_items.pop()               *)
(* and the prologue of _recompute_step (row list to visit).                *)
(***************************************************************************)
Pop ==
  /\ pc = "pop"
  /\ stack # <<>>
  /\ LET it == stack[Len(stack)]
         req == it.rows                                 \* sorted(require_rows or [])
         dr  == SortedSeq(DirtyRows(it.node))
     IN /\ stack' = SubSeq(stack, 1, Len(stack) - 1)
        /\ cur' = it
        /\ rowsq' = IF DirtyRows(it.node) = {} THEN <<>>        \* node not in recompute_map: return
                    ELSE [i \in 1..Len(req) |-> [row |-> req[i], required |-> TRUE]]
                         \o [i \in 1..Len(dr) |-> [row |-> dr[i], required |-> Len(req) = 0]]
        /\ pc' = "rows"
  /\ UNCHANGED <<same, cross, dirty, done, locked, val, doneCnt, expCnt>>

(***************************************************************************)
(* One iteration of the row loop of _recompute_step (allow_evaluation).    *)
(***************************************************************************)
SkipRow ==         \* required row already up to date, or row already done in this update
  /\ pc = "rows" /\ rowsq # <<>>
  /\ LET h == Head(rowsq) IN <<cur.node, h.row>> \notin dirty
  /\ rowsq' = Tail(rowsq)
  /\ UNCHANGED <<same, cross, dirty, done, locked, stack, cur, val, doneCnt, expCnt, pc>>

EvalCell ==        \* the cell evaluates (possibly to the CircularRefError value)
  /\ pc = "rows" /\ rowsq # <<>>
  /\ LET h == Head(rowsq)
         cell == <<cur.node, h.row>>
         cycle == h.required /\ cell \in locked
     IN /\ cell \in dirty
        /\ (cycle \/ FirstDirtyRead(cur.node, h.row) = <<>>)
        /\ val' = [val EXCEPT ![cell] = IF cycle THEN Circ ELSE EvalValue(cur.node, h.row)]
        /\ locked' = locked \ {cell}
        /\ done' = done \cup {cell}
        /\ dirty' = dirty \ {cell}
        /\ doneCnt' = doneCnt + 1
        /\ rowsq' = Tail(rowsq)
  /\ UNCHANGED <<same, cross, stack, cur, expCnt, pc>>

OrderErrorOpportunistic ==   \* out of order on a cell we were not asked for: give up on this node
  /\ pc = "rows" /\ rowsq # <<>>
  /\ LET h == Head(rowsq)
         cell == <<cur.node, h.row>>
     IN /\ cell \in dirty
        /\ ~h.required
        /\ FirstDirtyRead(cur.node, h.row) # <<>>
  /\ rowsq' = <<>>
  /\ UNCHANGED <<same, cross, dirty, done, locked, stack, cur, val, doneCnt, expCnt, pc>>

OrderErrorRequired ==        \* re-order: push the item back, push the cell we need, lock the requirer
  /\ pc = "rows" /\ rowsq # <<>>
  /\ LET h == Head(rowsq)
         cell == <<cur.node, h.row>>
         cycle == h.required /\ cell \in locked
     IN /\ cell \in dirty
        /\ h.required
        /\ ~cycle
        /\ FirstDirtyRead(cur.node, h.row) # <<>>
        /\ LET tgt == FirstDirtyRead(cur.node, h.row)[1]
           IN /\ stack' = stack \o <<cur, [node |-> tgt[1], rows |-> <<tgt[2]>>, locks |-> <<cell>>]>>
              /\ locked' = locked \cup {cell}
  /\ cur' = NoItem
  /\ rowsq' = <<>>
  /\ pc' = "pop"
  /\ UNCHANGED <<same, cross, dirty, done, val, doneCnt, expCnt>>

RowsDone ==
  /\ pc = "rows" /\ rowsq = <<>>
  /\ pc' = "unlock"
  /\ UNCHANGED <<same, cross, dirty, done, locked, stack, cur, rowsq, val, doneCnt, expCnt>>

(***************************************************************************)
(* Discard the locks of a completed work item; progress sanity check.      *)
(***************************************************************************)
Unlock ==
  /\ pc = "unlock"
  /\ IF cur.locks = <<>> \/ cur.locks[1] \notin locked
     THEN /\ pc' = "pop" /\ UNCHANGED <<locked, expCnt>>
     ELSE /\ locked' = locked \ {cur.locks[1]}
          /\ expCnt' = expCnt + 1
          /\ pc' = IF doneCnt < expCnt + 1 THEN "fail1" ELSE "pop"
  /\ cur' = NoItem
  /\ UNCHANGED <<same, cross, dirty, done, stack, rowsq, val, doneCnt>>

(***************************************************************************)
(* The outer `while self.recompute_map` loop.                              *)
(***************************************************************************)
Rebuild ==
  /\ pc = "pop" /\ stack = <<>>
  /\ IF dirty = {} THEN pc' = "done"
     ELSE IF doneCnt = 0 THEN pc' = "fail2"
     ELSE pc' = "start"
  /\ UNCHANGED <<same, cross, dirty, done, locked, stack, cur, rowsq, val, doneCnt, expCnt>>

Next == MakeWorkItems \/ Pop \/ SkipRow \/ EvalCell \/ OrderErrorOpportunistic \/ OrderErrorRequired
        \/ RowsDone \/ Unlock \/ Rebuild

Spec == Init /\ [][Next]_vars /\ WF_vars(Next)

(***************************************************************************)
(* Properties                                                              *)
(***************************************************************************)
\* C18: the two "data engine not making progress" exits are unreachable
NoProgressFailureUnreachable == pc \notin {"fail1", "fail2"}

\* C18: recalculation terminates
Termination == <>(pc = "done")

\* C06 + C18: at the end every cell holds the value the program denotes, whatever the schedule:
\* cells that reach a cycle hold CircularRefError, all others their normal value.
FinalValues == pc = "done" => \A cell \in Cells : val[cell] = Sem(cell)

\* lock discipline: only cells waiting on the stack are locked
LockDiscipline ==
  locked \subseteq ({stack[i].locks[1] : i \in {j \in 1..Len(stack) : stack[j].locks # <<>>}}
                    \cup (IF cur.locks # <<>> THEN {cur.locks[1]} ELSE {}))

\* nothing is left dirty or locked at the end
CleanEnd == pc = "done" => dirty = {} /\ locked = {} /\ stack = <<>>

=============================================================================
