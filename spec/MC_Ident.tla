------------------------------ MODULE MC_Ident ------------------------------
(* Bounded design model for C21.  One state per input.                                           *)
(*                                                                                               *)
(* Single requests (pick_table_ident, pick_col_ident): None, every sequence of length <= MaxLen  *)
(* over Alphabet (12 representative characters) and the selected names of Extra.                 *)
(* Batches (pick_col_ident_list): every list of 0..ListArity requests drawn from None, the       *)
(* sequences of length <= 1 over Alphabet and ListExtra.                                         *)
(* Avoid sets are built from the names the reference solution would pick for the request with    *)
(* nothing / its first choice / its first two choices taken (c0, c1, c2), as they are, upper-    *)
(* cased and lower-cased, from the request itself, and (batches) from 'id' and from what the     *)
(* reference solution picks for the whole batch.                                                 *)
(* The input space is also written out as JSON (with Ref's answer, for a coverage figure only)   *)
(* so that the harness runs the real functions on exactly the inputs TLC enumerated.             *)
EXTENDS Ident, TLC, Json, IOUtils, SequencesExt, FiniteSetsExt
CONSTANTS MaxLen, ListArity

\* BEGIN GENERATED MODEL CONSTANTS (python3 checks/C21.py --regen; from the tables in checks/C21.py)
Alphabet == {
  32,     \*  
  45,     \* -
  50,     \* 2
  73,     \* I
  95,     \* _
  102,    \* f
  105,    \* i
  233,    \* \xe9
  769,    \* \u0301
  20013,  \* \u4e2d
  65298,  \* \uff12
  128512  \* \U0001f600
}
\* NFKD image with combining marks removed; 0 = not an identifier character
Decomp ==
  (189 :> <<49, 0, 50>>) @@
  (233 :> <<101>>) @@
  (305 :> <<0>>) @@
  (769 :> <<>>) @@
  (8490 :> <<75>>) @@
  (8560 :> <<105>>) @@
  (20013 :> <<0>>) @@
  (64257 :> <<102, 105>>) @@
  (65298 :> <<50>>) @@
  (65350 :> <<102>>) @@
  (65353 :> <<105>>) @@
  (128512 :> <<0>>)
Extra == {
  <<0>>,                                                                                         \* \x00
  <<65>>,                                                                                        \* A
  <<65, 65>>,                                                                                    \* AA
  <<66>>,                                                                                        \* B
  <<67, 50, 95, 50>>,                                                                            \* C2_2
  <<73, 50, 95>>,                                                                                \* I2_
  <<73, 68>>,                                                                                    \* ID
  <<73, 70>>,                                                                                    \* IF
  <<78, 111, 110, 101>>,                                                                         \* None
  <<84>>,                                                                                        \* T
  <<84, 50>>,                                                                                    \* T2
  <<84, 65, 66, 76, 69>>,                                                                        \* TABLE
  <<84, 78, 111, 110, 101>>,                                                                     \* TNone
  <<84, 97, 98, 108, 101>>,                                                                      \* Table
  <<84, 97, 98, 108, 101, 49>>,                                                                  \* Table1
  <<84, 97, 98, 108, 101, 50>>,                                                                  \* Table2
  <<84, 105, 102>>,                                                                              \* Tif
  <<88, 95, 95>>,                                                                                \* X__
  <<95, 95, 99, 108, 97, 115, 115, 95, 95>>,                                                     \* __class__
  <<97>>,                                                                                        \* a
  <<97, 10, 98>>,                                                                                \* a\nb
  <<97, 46, 98>>,                                                                                \* a.b
  <<99>>,                                                                                        \* c
  <<99, 50>>,                                                                                    \* c2
  <<99, 78, 111, 110, 101>>,                                                                     \* cNone
  <<99, 105, 102>>,                                                                              \* cif
  <<99, 108, 97, 115, 115>>,                                                                     \* class
  <<100, 101, 102>>,                                                                             \* def
  <<103, 114, 105, 115, 116, 72, 101, 108, 112, 101, 114, 95, 68, 105, 115, 112, 108, 97, 121>>, \* gristHelper_Display
  <<105, 50, 95, 50>>,                                                                           \* i2_2
  <<105, 100>>,                                                                                  \* id
  <<105, 102>>,                                                                                  \* if
  <<109, 97, 110, 117, 97, 108, 83, 111, 114, 116>>,                                             \* manualSort
  <<110, 111, 110, 101>>,                                                                        \* none
  <<116, 97, 98, 108, 101, 49>>,                                                                 \* table1
  <<116, 114, 117, 101>>,                                                                        \* true
  <<120, 49>>,                                                                                   \* x1
  <<120, 49, 95, 50>>,                                                                           \* x1_2
  <<189>>,                                                                                       \* \xbd
  <<8490, 305>>,                                                                                 \* \u212a\u0131
  <<8560, 102>>,                                                                                 \* \u2170f
  <<64257>>,                                                                                     \* \ufb01
  <<65353, 65350>>                                                                               \* \uff49\uff46
}
ListExtra == {
  <<65>>,             \* A
  <<66>>,             \* B
  <<73, 50>>,         \* I2
  <<73, 50, 95, 50>>, \* I2_2
  <<73, 100>>,        \* Id
  <<105, 50>>,        \* i2
  <<105, 100>>,       \* id
  <<105, 102>>        \* if
}
\* END GENERATED MODEL CONSTANTS

Lo(c)       == IF IsUpper(c) THEN c + 32 ELSE c
Lower(s)    == [k \in 1..Len(s) |-> Lo(s[k])]
LowerSet(S) == {Lower(s) : s \in S}
IsAscii(s)  == \A k \in 1..Len(s) : s[k] < 128

Strs(n)  == UNION {[1..k -> Alphabet] : k \in 0..n}
Req(s)   == [none |-> FALSE, s |-> s]
NoneReq  == [none |-> TRUE, s |-> <<>>]
IdName   == <<105, 100>>      \* "id": always among the existing column names in the engine

SingleReqs == {Req(s) : s \in Strs(MaxLen) \cup Extra} \cup {NoneReq}
ListReqs   == {Req(s) : s \in Strs(1) \cup ListExtra} \cup {NoneReq}

Cased(Bs) == Bs \cup {UpperSet(B) : B \in Bs} \cup {LowerSet(B) : B \in Bs}

AvoidSingle(fn, r) ==
  LET c0 == PickOne(fn, r, {}, Decomp)
      c1 == PickOne(fn, r, {Upper(c0)}, Decomp)
      c2 == PickOne(fn, r, {Upper(c0), Upper(c1)}, Decomp)
  IN Cased({{}, {c0}, {c1}, {c0, c1}, {c0, c2}, {c1, c2}, {c0, c1, c2}})
     \cup (IF ~r.none /\ IsAscii(r.s) THEN {{r.s}, {Upper(r.s)}, {Lower(r.s)}} ELSE {})

AvoidList(rs) ==
  LET o == Ref([fn |-> "list", reqs |-> rs, avoid |-> {}], Decomp)
      all == {o[k] : k \in 1..Len(o)}
      c0 == IF Len(o) > 0 THEN o[1] ELSE IdName
      c1 == IF Len(o) > 0 THEN PickOne("list", rs[1], {Upper(c0)}, Decomp) ELSE IdName
  IN {{}, {IdName}, {c0}, UpperSet(all)}
     \cup (IF Len(rs) <= 2    \* fewer avoid sets for the (many) longer batches
           THEN {{Lower(c0)}, {c0, c1}, {c1, IdName}, {o[k] : k \in {Len(o)} \cap DOMAIN o}, all}
           ELSE {})

SinglePairs == {"table", "col"} \X SingleReqs
ListsOf(n)  == [1..n -> ListReqs]

SingleIn(fn, r, A) == [fn |-> fn, reqs |-> <<r>>, avoid |-> A]
ListIn(rs, A)      == [fn |-> "list", reqs |-> rs, avoid |-> A]

\* The input space is enumerated by nested quantifiers (one initial state per input) rather than built
\* as one set: TLC's UNION / \cup over sets of ~10^5 records is quadratic.
VARIABLE input
Init ==
  \/ \E p \in SinglePairs : \E A \in AvoidSingle(p[1], p[2]) : input = SingleIn(p[1], p[2], A)
  \/ \E n \in 0..ListArity : \E rs \in ListsOf(n) : \E A \in AvoidList(rs) : input = ListIn(rs, A)
Next == UNCHANGED input
SpecSane == Ok(input, Ref(input, Decomp))

\* The same space as JSON, grouped by request:  [fn, reqs, avoids |-> <<avoid set as sequence, ...>>,
\* refs |-> <<Ref's answer for that avoid set, ...>>]; the harness unpacks group g into the inputs
\* [fn, reqs, avoid |-> g.avoids[k], ref |-> g.refs[k]] and checks their number against TLC's state count.
Group(fn, reqs, As) ==
  LET avs == SetToSeq(As)
  IN [fn |-> fn, reqs |-> reqs,
      avoids |-> [k \in 1..Len(avs) |-> SetToSeq(avs[k])],
      refs   |-> [k \in 1..Len(avs) |-> Ref([fn |-> fn, reqs |-> reqs, avoid |-> avs[k]], Decomp)]]

ASSUME /\ "OUT_FILE" \in DOMAIN IOEnv
       => JsonSerialize(IOEnv.OUT_FILE,
            [singles |-> SetToSeq({Group(p[1], <<p[2]>>, AvoidSingle(p[1], p[2])) : p \in SinglePairs}),
             lists   |-> [m \in 1..(ListArity + 1) |->
                            SetToSeq({Group("list", rs, AvoidList(rs)) : rs \in ListsOf(m - 1)})]])
=============================================================================
