INIT Init
NEXT Next
CONSTANTS Grid = 4
          MaxEx = 4
          MaxReq = 3
INVARIANT SpecSane
INVARIANT SpecTight
