INIT Init
NEXT Next
CONSTANTS Grid = 7
          MaxEx = 4
          MaxReq = 3
INVARIANT SpecSane
INVARIANT SpecTight
