INIT Init
NEXT Next
CONSTANTS MaxLen = 2
          ListArity = 2
INVARIANT SpecSane
