-------------------------- MODULE Trace_TypeChange --------------------------
(* Judges recorded ['ModifyColumn', 'T', 'X', {'type': to}] user actions of the real engine          *)
(* (harness/fn_typechange.py) against TypeChange!Judge.                                              *)
(* Case: [inp |-> the design input as JSON text (not read here), setup, from, to, two, exc, typ,     *)
(*        styp, rows, changed, xref, fields, disp, rev, fcols]  - see TypeChange.tla;                 *)
(*        setup # "": the engine refused to store the designed contents, no type change was attempted *)
(* Verdicts: <<[i |-> case index, c |-> {failed clauses}]>>                                          *)
EXTENDS TypeChange, TLC, Json, IOUtils
Cases == JsonDeserialize(IOEnv.TRACE_FILE)
N == Len(Cases)
VARIABLES i, bad
Init == i = 0 /\ bad = <<>> /\ (N > 0 \/ JsonSerialize(IOEnv.OUT_FILE, <<>>))
Next ==
  /\ i < N
  /\ i' = i + 1
  /\ bad' = LET j == IF Cases[i + 1].setup # "" THEN {}
                      ELSE Judge(Cases[i + 1]) \cup
                           (IF Cases[i + 1].exc = "" /\ ~AnchorsOk(Cases[i + 1]) THEN {"C23.anchor"} ELSE {})
            IN IF j = {} THEN bad ELSE Append(bad, [i |-> i + 1, c |-> j])
  /\ (i' < N \/ JsonSerialize(IOEnv.OUT_FILE, bad'))
Spec == Init /\ [][Next]_<<i, bad>>
View == i
=============================================================================
