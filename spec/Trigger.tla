------------------------------- MODULE Trigger -------------------------------
(***************************************************************************)
(* C15 - trigger formulas recalculate exactly when configured              *)
(* (sandbox/grist: engine.py _maybe_update_trigger_dependencies /          *)
(*  prevent_recalc / invalidate_records, docactions.py BulkUpdateRecord,   *)
(*  useractions.py doBulkAddOrReplace / doBulkUpdateRecord, relation.py    *)
(*  SingleRowsIdentityRelation).                                           *)
(*                                                                         *)
(* A state machine over ONE table with data columns A, B, a formula column *)
(* F = $A * 10 and one or two TRIGGER columns (data columns with a         *)
(* formula).  The trigger formula is `(value or 0) + 1`, so every          *)
(* evaluation of it for a row is visible as +1 on the stored cell.         *)
(*                                                                         *)
(*   cfg     sequence of trigger columns [id, when, deps, fm]:             *)
(*           when \in {DEFAULT, NEVER, MANUAL}, deps a sequence of column   *)
(*           ids out of A, B, F and the column itself (recalcDeps),        *)
(*           fm the formula variant (not used by the relation)             *)
(*   state   sequence of rows [r, A, B, F, k]; k[j] the cell of cfg[j]     *)
(*   action  [op, r, vals, bulk]: op \in Add | Upd | Rem (records) and      *)
(*           Ren | Mod (RenameColumn A / ModifyColumn A type: schema        *)
(*           changes to a dependency); vals a sequence of [c, v]           *)
(*   bundle  sequence of actions = one apply_user_actions call; only the   *)
(*           state after the whole bundle can be observed                  *)
(*                                                                         *)
(* Step(cfg, before, bundle, after) is the admissible-outcome RELATION of  *)
(* the property.  For every (row, trigger column) the actions of a bundle  *)
(* are classified one after the other and folded into                      *)
(*      b   the base value: the cell before the bundle, the value an       *)
(*          action supplied, or 0 for a new record                         *)
(*      lo  1 if the formula MUST have been evaluated since b was set      *)
(*      hi  how many evaluations since then the property can justify       *)
(* and the cell after the bundle has to be b + n with lo <= n <= hi.       *)
(*   MUST      new record, when # NEVER, no value supplied;                *)
(*             DEFAULT and a recalcDeps cell of the row changed value;     *)
(*             MANUAL and a record update changed a cell of the row.       *)
(*   MUST NOT  a value supplied in that user action, column not depending  *)
(*             on itself: the supplied value is the new base, n = 0;       *)
(*             DEFAULT and no recalcDeps cell of the row written or        *)
(*             recomputed; MANUAL and no record update of the row; NEVER;  *)
(*             schema changes; actions on other rows.                      *)
(*   MAY       (both admitted) DEFAULT and a recalcDeps cell written with  *)
(*             the value it had; MANUAL and an update that wrote a trigger *)
(*             column with a value it may have had (an update that wrote   *)
(*             only data cells, each with the value it had, changes no     *)
(*             row: MUST NOT); a value supplied for a column that          *)
(*             depends on itself (MUST if it differs from the old one).    *)
(* Several MUST events of one bundle may be served by one evaluation (the  *)
(* engine calculates at the end of the bundle): lo = 1, hi = their number. *)
(* An evaluation of a column that depends on itself changes one of its own *)
(* recalcDeps cells; the property puts no bound on what follows: hi = BIG. *)
(*                                                                         *)
(* Clauses (Failures names the failing row and column):                    *)
(*   C15.must     a due recalculation did not happen (cell < b + lo)       *)
(*   C15.kept     a supplied value was not kept                            *)
(*   C15.mustnot  a DEFAULT / MANUAL cell changed with no admissible cause *)
(*   C15.never    a NEVER cell changed                                     *)
(*   C15.schema   a cell changed in a bundle of schema changes only        *)
(*   C15.bind     rows, A, B or F are not what the actions wrote: the      *)
(*                record does not fit the model (nothing can be concluded) *)
(*   C15.scope    configuration or bundle outside the model                *)
(***************************************************************************)
EXTENDS Integers, Sequences, FiniteSets

DEFAULT == 0
NEVER   == 1
MANUAL  == 2
BIG     == 100000          \* "no upper bound" on the number of evaluations

Range(s)         == {s[i] : i \in 1..Len(s)}
Min2(x, y)       == IF x <= y THEN x ELSE y

\* TLC passes operator arguments and LET definitions unevaluated and may evaluate them again at
\* every use; a bound variable holds a value.  Eager(x, Op) = Op(x) with x evaluated once.
Eager(x, Op(_)) == CHOOSE y \in {Op(v) : v \in {x}} : TRUE

RECURSIVE SortedSeq(_)
SortedSeq(S) == IF S = {} THEN <<>>
                ELSE LET m == CHOOSE x \in S : \A y \in S : x <= y
                     IN <<m>> \o SortedSeq(S \ {m})

(* ---- configuration ---------------------------------------------------- *)
DataCols     == {"A", "B"}
DepUniverse(kc) == {"A", "B", "F", kc.id}
Deps(kc)     == Range(kc.deps)
SelfDep(kc)  == kc.when = DEFAULT /\ kc.id \in Deps(kc)
\* recalcDeps only apply to DEFAULT; the column itself is handled by SelfDep
EffDeps(kc)  == IF kc.when = DEFAULT THEN Deps(kc) \ {kc.id} ELSE {}
InScope(cfg) == /\ Len(cfg) \in 1..2
                /\ \A i, j \in 1..Len(cfg) : i # j => cfg[i].id # cfg[j].id
                /\ \A j \in 1..Len(cfg) : /\ cfg[j].when \in {DEFAULT, NEVER, MANUAL}
                                          /\ Deps(cfg[j]) \subseteq DepUniverse(cfg[j])
                                          /\ cfg[j].id \notin {"A", "B", "F"}

(* ---- actions ---------------------------------------------------------- *)
Has(vals, c) == \E i \in 1..Len(vals) : vals[i].c = c
Val(vals, c) == vals[CHOOSE i \in 1..Len(vals) : vals[i].c = c].v
IsSchema(act) == act.op \in {"Ren", "Mod"}

(* ---- observed states -------------------------------------------------- *)
RowsOf(obs)    == {obs[i].r : i \in 1..Len(obs)}
RowRec(obs, r) == obs[CHOOSE i \in 1..Len(obs) : obs[i].r = r]
BundleRows(bundle) == {bundle[i].r : i \in {n \in 1..Len(bundle) : ~IsSchema(bundle[n])}}

(* ---- folding a bundle, one row at a time ------------------------------ *)
\* (rows are independent: F reads its own row only, an action names one row; everything below is
\*  built from tuples and records so that TLC evaluates it eagerly)
\* one (row, trigger column): see the head of the module
Cell(b, lo, hi, kept) == [b |-> b, lo |-> lo, hi |-> hi, kept |-> kept]
More(c, self)    == IF self THEN BIG ELSE Min2(BIG, c.hi + 1)
EvMust(c, self)  == Cell(c.b, 1, More(c, self), FALSE)
EvMay(c, self)   == Cell(c.b, c.lo, More(c, self), FALSE)
EvSet(x)         == Cell(x, 0, 0, TRUE)                   \* the supplied value is kept
EvSetSelf(x, must) == Cell(x, IF must THEN 1 ELSE 0, BIG, FALSE)
EvBorn(self)     == Cell(0, 1, IF self THEN BIG ELSE 1, FALSE)
EvBornNever      == Cell(0, 0, 0, FALSE)

\* x is certainly not the value the cell has at this point of the bundle
KnownChanged(c, x) == x < c.b \/ x > c.b + c.hi

\* a tuple over the trigger columns (at most two)
PerCol(cfg, F(_)) == IF Len(cfg) = 1 THEN <<F(1)>> ELSE <<F(1), F(2)>>

\* the state of one row while a bundle is folded: ex (the row exists), a, b, cell (PerCol)
RowState(ex, a, b, cell) == [ex |-> ex, a |-> a, b |-> b, cell |-> cell]
RowStart(cfg, before, r) ==
  IF r \in RowsOf(before)
  THEN LET rec == RowRec(before, r)
           C(j) == Cell(rec.k[j], 0, 0, FALSE)
       IN RowState(TRUE, rec.A, rec.B, PerCol(cfg, C))
  ELSE LET C(j) == Cell(0, 0, 0, FALSE) IN RowState(FALSE, 0, 0, PerCol(cfg, C))

DataChanged(t, vals, c) ==
  Has(vals, c) /\ Val(vals, c) # (IF c = "A" THEN t.a ELSE t.b)
\* F = $A * 10 of the same row: changes value iff A does; may be recomputed whenever A is written
DepChanged(t, vals, d) ==
  CASE d \in DataCols -> DataChanged(t, vals, d)
    [] d = "F"        -> DataChanged(t, vals, "A")
    [] OTHER          -> FALSE
DepTouched(vals, d) ==
  CASE d \in DataCols -> Has(vals, d)
    [] d = "F"        -> Has(vals, "A")
    [] OTHER          -> FALSE

\* a record update of the row that certainly changed one of its cells
RowChanged(cfg, t, vals) ==
  \/ \E c \in DataCols : DataChanged(t, vals, c)
  \/ \E i \in 1..Len(cfg) : Has(vals, cfg[i].id) /\ KnownChanged(t.cell[i], Val(vals, cfg[i].id))

\* a record update that certainly changed no cell of the row: only data columns, each with the value it had
RowSame(cfg, t, vals) ==
  /\ \A c \in DataCols : Has(vals, c) => ~DataChanged(t, vals, c)
  /\ \A i \in 1..Len(cfg) : ~Has(vals, cfg[i].id)

UpdEvent(cfg, t, vals, j) ==
  LET kc     == cfg[j]
      c      == t.cell[j]
      self   == SelfDep(kc)
      depChg == \E d \in EffDeps(kc) : DepChanged(t, vals, d)
      depTch == \E d \in EffDeps(kc) : DepTouched(vals, d)
  IN IF Has(vals, kc.id)
     THEN LET x == Val(vals, kc.id)
          IN IF self THEN EvSetSelf(x, KnownChanged(c, x) \/ depChg) ELSE EvSet(x)
     ELSE IF Len(vals) = 0 THEN c
     ELSE CASE kc.when = NEVER   -> c
            [] kc.when = DEFAULT -> IF depChg THEN EvMust(c, self)
                                    ELSE IF depTch THEN EvMay(c, self) ELSE c
            [] kc.when = MANUAL  -> IF RowChanged(cfg, t, vals) THEN EvMust(c, FALSE)
                                    ELSE IF RowSame(cfg, t, vals) THEN c     \* "never otherwise"
                                    ELSE EvMay(c, FALSE)

AddEvent(cfg, vals, j) ==
  LET kc == cfg[j]
  IN IF Has(vals, kc.id)
     THEN IF SelfDep(kc) THEN EvSetSelf(Val(vals, kc.id), FALSE) ELSE EvSet(Val(vals, kc.id))
     ELSE IF kc.when = NEVER THEN EvBornNever ELSE EvBorn(SelfDep(kc))

\* the effect of one action on the state t of row r
ApplyAct(cfg, t, r, act) ==
  LET v == act.vals
      U(j) == UpdEvent(cfg, t, v, j)
      N(j) == AddEvent(cfg, v, j)
  IN IF IsSchema(act) \/ act.r # r THEN t    \* schema changes, other rows: no cell of r is affected
     ELSE CASE act.op = "Upd" /\ t.ex ->
                 RowState(TRUE, IF Has(v, "A") THEN Val(v, "A") ELSE t.a,
                                IF Has(v, "B") THEN Val(v, "B") ELSE t.b, PerCol(cfg, U))
            [] act.op = "Add" /\ ~t.ex ->
                 RowState(TRUE, IF Has(v, "A") THEN Val(v, "A") ELSE 0,
                                IF Has(v, "B") THEN Val(v, "B") ELSE 0, PerCol(cfg, N))
            [] act.op = "Rem" /\ t.ex -> RowState(FALSE, t.a, t.b, t.cell)
            [] OTHER -> t

RECURSIVE Fold(_, _, _, _, _)
Fold(cfg, t, r, bundle, n) ==
  IF n > Len(bundle) THEN t
  ELSE LET Rest(t2) == Fold(cfg, t2, r, bundle, n + 1)
       IN Eager(ApplyAct(cfg, t, r, bundle[n]), Rest)

RowFinal(cfg, before, bundle, r) ==
  LET All(t0) == Fold(cfg, t0, r, bundle, 1) IN Eager(RowStart(cfg, before, r), All)
\* every row that exists before or is named by the bundle |-> its state after the bundle
FinalAll(cfg, before, bundle) ==
  [r \in RowsOf(before) \cup BundleRows(bundle) |-> RowFinal(cfg, before, bundle, r)]
Existing(fin) == {r \in DOMAIN fin : fin[r].ex}

\* the actions of the bundle make sense in the state they are applied to
RECURSIVE WellFormed(_, _, _)
WellFormed(rows, bundle, n) ==
  IF n > Len(bundle) THEN TRUE
  ELSE LET act == bundle[n]
       IN CASE act.op = "Upd" -> act.r \in rows /\ WellFormed(rows, bundle, n + 1)
            [] act.op = "Add" -> act.r \notin rows /\ act.r > 0 /\ WellFormed(rows \cup {act.r}, bundle, n + 1)
            [] act.op = "Rem" -> act.r \in rows /\ WellFormed(rows \ {act.r}, bundle, n + 1)
            [] OTHER          -> IsSchema(act) /\ WellFormed(rows, bundle, n + 1)

(* ---- the relation ----------------------------------------------------- *)
\* a failure is [r |-> row, col |-> trigger column, c |-> clause] (r = 0, col = "": the whole step)
Fail(r, col, c) == [r |-> r, col |-> col, c |-> c]
CellClause(kc, c, v, schemaOnly) ==
  IF c.kept THEN "C15.kept"
  ELSE IF c.lo >= 1 /\ v < c.b + c.lo THEN "C15.must"
  ELSE IF schemaOnly THEN "C15.schema"
  ELSE IF kc.when = NEVER THEN "C15.never"
  ELSE "C15.mustnot"
CellFailures(r, kc, c, v, schemaOnly) ==
  IF v >= c.b + c.lo /\ v <= c.b + c.hi THEN {} ELSE {Fail(r, kc.id, CellClause(kc, c, v, schemaOnly))}

\* one observed row against the folded state of that row
RowFailures(cfg, t, o, schemaOnly) ==
  \* the cells the classification rests on are what the actions wrote (A, B) and F = A * 10
  IF ~(t.ex /\ o.A = t.a /\ o.B = t.b /\ o.F = 10 * o.A /\ Len(o.k) = Len(cfg)) THEN {Fail(o.r, "", "C15.bind")}
  ELSE UNION {CellFailures(o.r, cfg[j], t.cell[j], o.k[j], schemaOnly) : j \in 1..Len(cfg)}

FailuresFin(cfg, fin, bundle, after) ==
  LET schemaOnly == \A n \in 1..Len(bundle) : IsSchema(bundle[n])
      rows       == Existing(fin)
  IN IF RowsOf(after) # rows \/ Len(after) # Cardinality(rows) THEN {Fail(0, "", "C15.bind")}
     ELSE UNION {RowFailures(cfg, fin[after[i].r], after[i], schemaOnly) : i \in 1..Len(after)}

Failures(cfg, before, bundle, after) ==
  IF ~InScope(cfg) \/ ~WellFormed(RowsOf(before), bundle, 1) THEN {Fail(0, "", "C15.scope")}
  ELSE UNION {FailuresFin(cfg, fin, bundle, after) : fin \in {FinalAll(cfg, before, bundle)}}

Clauses(cfg, before, bundle, after) == {f.c : f \in Failures(cfg, before, bundle, after)}

Ok(cfg, before, bundle, after)   == Failures(cfg, before, bundle, after) = {}
Step(cfg, before, bundle, after) == Ok(cfg, before, bundle, after)

(* ---- reference outcome: one evaluation at the end of the bundle where one is due ----------- *)
RefRow(cfg, r, t) ==
  LET V(j) == t.cell[j].b + t.cell[j].lo
  IN [r |-> r, A |-> t.a, B |-> t.b, F |-> 10 * t.a, k |-> PerCol(cfg, V)]
RefFin(cfg, fin) ==
  LET Rows(rows) == [i \in 1..Len(rows) |-> RefRow(cfg, rows[i], fin[rows[i]])]
  IN Eager(SortedSeq(Existing(fin)), Rows)
RefAfter(cfg, before, bundle) ==
  LET Ref(fin) == RefFin(cfg, fin) IN Eager(FinalAll(cfg, before, bundle), Ref)

=============================================================================
