SPECIFICATION Spec
CHECK_DEADLOCK FALSE
CONSTANTS Base1 = {1, 2, 3, 5}
          Ids1 <- IdsStd
          MaxLen1 = 2
          BigBases = {{}, {1, 2, 3, 5}}
          Base2 = {2, 5}
          Ids2 <- Ids2Quick
          MaxLenA = 2
          MaxLenB = 1
INVARIANT SpecSane
INVARIANT DefectClasses
