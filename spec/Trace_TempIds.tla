---------------------------- MODULE Trace_TempIds ----------------------------
(* Judges recorded bundles of the real engine (harness/fn_tempids.py) against TempIds!Clauses.     *)
(* Cases: <<[inp |-> [doc |-> [A |-> <<[id, s, r, rl]>>, B |-> ...], acts |-> <<[k, t, ids, s, col, vals]>>], *)
(*           out |-> [exc (class name or ""), rets |-> <<[k, ids]>>, after |-> [A |-> rows, B |-> rows],      *)
(*                    dig0, dig1 (digests of the whole document before / after)],                             *)
(*           exc |-> ""]>>                                                                                    *)
(* Verdicts: <<[i |-> case index, c |-> {failed clauses}, n |-> <<>>]>>; with TEMPIDS_STATS in the            *)
(* environment a last record [i |-> 0, c |-> {}, n |-> <<strict, lenient, open, reject>>] counts the classes  *)
(* the specification puts the judged bundles in.                                                              *)
EXTENDS TempIds, TLC, Json, IOUtils
Cases == JsonDeserialize(IOEnv.TRACE_FILE)
N == Len(Cases)
WithStats == "TEMPIDS_STATS" \in DOMAIN IOEnv
VARIABLES i, bad, cnt

ToTab(rows) == [id \in {rows[j].id : j \in 1..Len(rows)} |->
                  LET j == CHOOSE j \in 1..Len(rows) : rows[j].id = id
                  IN [s |-> rows[j].s, r |-> rows[j].r, rl |-> rows[j].rl]]
ToDoc(d) == [t \in Tables |-> ToTab(d[t])]

Outcome(ob) == [rej |-> ob.exc # "", same |-> ob.dig0 = ob.dig1, rets |-> ob.rets, doc |-> ToDoc(ob.after)]

CaseClauses(c) ==
  IF c.exc # "" THEN {"C26.raised"}
  ELSE Clauses(ToDoc(c.inp.doc), c.inp.acts, Outcome(c.out))

ClassIx(c) == LET k == Class(ToDoc(c.inp.doc), c.inp.acts)
              IN IF k = "strict" THEN 1 ELSE IF k = "lenient" THEN 2 ELSE IF k = "open" THEN 3 ELSE 4

Final(b, n) == IF WithStats THEN Append(b, [i |-> 0, c |-> {}, n |-> n]) ELSE b

Init == i = 0 /\ bad = <<>> /\ cnt = <<0, 0, 0, 0>>
        /\ (N > 0 \/ JsonSerialize(IOEnv.OUT_FILE, Final(<<>>, <<0, 0, 0, 0>>)))
Next ==
  /\ i < N
  /\ i' = i + 1
  /\ bad' = LET j == CaseClauses(Cases[i + 1])
            IN IF j = {} THEN bad ELSE Append(bad, [i |-> i + 1, c |-> j, n |-> <<>>])
  /\ cnt' = IF WithStats THEN [cnt EXCEPT ![ClassIx(Cases[i + 1])] = @ + 1] ELSE cnt
  /\ (i' < N \/ JsonSerialize(IOEnv.OUT_FILE, Final(bad', cnt')))
Spec == Init /\ [][Next]_<<i, bad, cnt>>
View == i
=============================================================================
