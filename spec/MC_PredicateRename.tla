-------------------------- MODULE MC_PredicateRename --------------------------
(* Bounded design model for C17.  The document has tables T(X, Y) and U(X, Z); every predicate tree  *)
(* of the C40 families (copied from MC_Predicate: Size(n, leaves)) over leaves that mention column X  *)
(* through rec / newRec / oldRec / choice / user.A / user.B, plus decoys (the name as a string         *)
(* constant, as an attribute of another name, as a bare name, as the outer attribute of rec.X.X, as a  *)
(* user attribute name), restricted to trees that SOME rename in SOME context changes;                  *)
(* x the contexts (ACL rule on T / on U / on '*', dropdown condition of a Ref:U column of T and of a   *)
(* Text column of T, trigger on T / on U, config-mode trigger on T)                                     *)
(* x the renames (the mentioned column, the same-named column of the other table, unrelated columns,   *)
(* two columns in one bundle, a chain of two renames; new names shorter / longer / prefixed)            *)
(* x the rename path x the spelling of the text x the document variant.                                 *)
(* One state per tree; the enumerated space is written to OUT_FILE and harness/fn_predrename.py builds  *)
(* the documents in the real engine.  A node = one operator / call / list display / leaf.               *)
EXTENDS PredicateRename, TLC, Json, IOUtils, SequencesExt, FiniteSetsExt
CONSTANTS MaxWide, MaxNarrow, Lanes, Full

C(v) == <<"Const", v>>
N(s) == <<"Name", s>>
A(b, s) == <<"Attr", b, s>>
RecX    == A(N("rec"), "X")
NewRecX == A(N("newRec"), "X")
OldRecX == A(N("oldRec"), "X")
ChoiceX == A(N("choice"), "X")
UserAX  == A(A(N("user"), "A"), "X")
UserBX  == A(A(N("user"), "B"), "X")
F == N("f")

StrX == VStr(<<88>>)                  \* 'X'
StrU == VStr(<<233, 26085>>)          \* non-ASCII text in front of a name token
Mention == <<RecX, NewRecX, OldRecX, ChoiceX, UserAX, UserBX>>
Decoys == <<C(StrX), C(StrU), A(N("other"), "X"), A(N("user"), "X"), A(N("rec"), "Y"), A(RecX, "X"), N("X"),
            C(VInt(1))>>
WideLeaves == Mention \o Decoys
NarrowLeaves == <<RecX, ChoiceX, UserAX, C(VInt(1))>>

\* ---- the expression families of MC_Predicate (copied; the keyword of the calls is named X here) ----
Kw(t) == <<"keywords", <<"X", t>>>>
Map1(S, G(_)) == [j \in 1..Len(S) |-> G(S[j])]
Map2(S1, S2, G(_, _)) ==
  [j \in 1..(Len(S1) * Len(S2)) |-> G(S1[((j - 1) \div Len(S2)) + 1], S2[((j - 1) % Len(S2)) + 1])]
Map3(S1, S2, S3, G(_, _, _)) ==
  [j \in 1..(Len(S1) * Len(S2) * Len(S3)) |->
     G(S1[((j - 1) \div (Len(S2) * Len(S3))) + 1], S2[(((j - 1) \div Len(S3)) % Len(S2)) + 1], S3[((j - 1) % Len(S3)) + 1])]
RECURSIVE Flat(_)
Flat(ss) == IF Len(ss) = 0 THEN <<>> ELSE ss[1] \o Flat(Tail(ss))

BinSeq == <<"Add", "Sub", "Mult", "Div", "Mod", "Eq", "NotEq", "Lt", "LtE", "Gt", "GtE", "Is", "IsNot",
            "In", "NotIn", "And", "Or", "List">>
TerSeq == <<"And", "Or", "List">>
Un(S) == LET not(t) == <<"Not", t>>        lst(t) == <<"List", t>>
             call(t) == <<"Call", F, t>>   callk(t) == <<"Call", F, Kw(t)>>
             up(t) == <<"Call", <<"Attr", t, "upper">>>>  lo(t) == <<"Call", <<"Attr", t, "lower">>>>
         IN Map1(S, not) \o Map1(S, lst) \o Map1(S, call) \o Map1(S, callk) \o Map1(S, up) \o Map1(S, lo)
Bi(S1, S2) == LET call(a, b) == <<"Call", F, a, b>>   callk(a, b) == <<"Call", a, Kw(b)>>
                  bin(op) == LET g(a, b) == <<op, a, b>> IN Map2(S1, S2, g)
              IN Flat(Map1(BinSeq, bin)) \o Map2(S1, S2, call) \o Map2(S1, S2, callk)
Te(S1, S2, S3) == LET ter(op) == LET g(a, b, d) == <<op, a, b, d>> IN Map3(S1, S2, S3, g)
                  IN Flat(Map1(TerSeq, ter))
Size(n, L) ==
  LET s1 == L
      s2 == Un(s1)
      s3 == Un(s2) \o Bi(s1, s1)
      s4 == Un(s3) \o Bi(s1, s2) \o Bi(s2, s1) \o Te(s1, s1, s1)
  IN CASE n = 1 -> s1 [] n = 2 -> s2 [] n = 3 -> s3 [] n = 4 -> s4

\* ---- documents, contexts, renames -------------------------------------------------------------------
Attr(n, t, c) == [name |-> n, charId |-> "Email", tableId |-> t, lookupColId |-> c]
Res(t, cs) == [tableId |-> t, colIds |-> cs]
Variants == <<
  [attrs |-> <<Attr("A", "U", "X"), Attr("B", "T", "X")>>, res |-> <<Res("T", <<"X", "Y">>), Res("U", <<"X", "Z">>)>>, reftype |-> "Ref:"],
  [attrs |-> <<Attr("A", "U", "Z"), Attr("B", "T", "Y")>>, res |-> <<Res("T", <<"Y", "X">>), Res("U", <<"*">>)>>, reftype |-> "RefList:"],
  [attrs |-> <<Attr("A", "U", "X"), Attr("B", "T", "X")>>, res |-> <<Res("T", <<"X">>), Res("U", <<"Z", "X">>)>>, reftype |-> "Ref:"] >>

Ctx(k, s, c, r) == [kind |-> k, self |-> s, choice |-> c, res |-> r]
Contexts == << Ctx("acl", "T", "", 1), Ctx("acl", "U", "", 2), Ctx("acl", "*", "", 0),
               Ctx("dc", "T", "U", 0), Ctx("dc", "T", "", 0),
               Ctx("trig", "T", "", 0), Ctx("trig", "U", "", 0), Ctx("trigc", "T", "", 0) >>

NameCp(s) ==
  CASE s = "X" -> <<88>> [] s = "Y" -> <<89>> [] s = "Z" -> <<90>> [] s = "W" -> <<87>> [] s = "A" -> <<65>> [] s = "B" -> <<66>>
    [] s = "Xnew" -> <<88, 110, 101, 119>> [] s = "X2" -> <<88, 50>> [] s = "rec" -> <<114, 101, 99>>
    [] OTHER -> <<95>>
Step(t, o, n) == [t |-> t, old |-> o, new |-> n, newcp |-> NameCp(n)]
Targets == << <<Step("T", "X", "W")>>, <<Step("T", "X", "Xnew")>>, <<Step("U", "X", "Xnew")>>,
              <<Step("T", "Y", "W")>>, <<Step("U", "Z", "W")>>,
              <<Step("T", "X", "Xnew"), Step("U", "X", "W")>>,
              <<Step("T", "X", "W"), Step("T", "W", "X2")>> >>
Paths == <<"RenameColumn", "colId", "label", "bulk">>
Styles == <<"full", "min", "cmt", "ws">>

\* texts outside the grammar (Python refuses them, or the converter does)
BadTexts == <<"rec.X ==", " rec.X == 1", "+rec.X", "rec.X == 1; 2", "x = rec.X", "rec.X if 1 else 2",
              "$X $X", "rec.X == 'abc", "(rec.X", "rec.X < choice.X < user.A.X", "-$X", "user.A.X[0]",
              "lambda: rec.X", "$X == $", "rec..X", "not", "{rec.X: 1}", "oldRec.X // 2", "choice.X ** 2", "# $X">>

CtxRec(v, c) == [kind |-> c.kind, self |-> c.self, choice |-> c.choice, attrs |-> v.attrs]
\* a tree is kept if some rename changes it in some context
Affected(t) ==
  \E k \in 1..Len(Contexts) : \E g \in 1..Len(Targets) :
     Renamed(t, CtxRec(Variants[1], Contexts[k]), Targets[g]) # t

WideExprs == SelectSeq(Flat([n \in 1..MaxWide |-> Size(n, WideLeaves)]), Affected)
NarrowExprs == SelectSeq(Flat([n \in 1..(MaxNarrow - MaxWide) |-> Size(MaxWide + n, NarrowLeaves)]), Affected)
ExprSeq == WideExprs \o NarrowExprs
NE == Len(ExprSeq)

ASSUME /\ "OUT_FILE" \in DOMAIN IOEnv
       => JsonSerialize(IOEnv.OUT_FILE, [wide |-> WideExprs, narrow |-> NarrowExprs, variants |-> Variants,
                                         contexts |-> Contexts, targets |-> Targets, paths |-> Paths,
                                         styles |-> Styles, bad |-> BadTexts])

\* ---- an abstract rendering: the token sequence of a tree (names as code points, punctuation as one) ----
Tok(cp, ref) == [cp |-> cp, ref |-> ref]
P(c) == Tok(<<c>>, <<>>)
RECURSIVE Toks(_), ToksFrom(_, _, _)
ToksFrom(t, i, kw) ==
  IF i > Len(t) THEN <<>>
  ELSE (IF kw THEN <<Tok(NameCp(t[i][1]), <<>>), P(61)>> \o Toks(t[i][2]) ELSE Toks(t[i])) \o <<P(44)>> \o ToksFrom(t, i + 1, kw)
Toks(t) ==
  LET k == t[1] IN
  CASE k = "Const" -> <<P(48)>>
    [] k = "Name" -> <<Tok(NameCp(t[2]), <<>>)>>
    [] k = "Attr" -> <<P(40)>> \o Toks(t[2]) \o <<P(41), P(46), Tok(NameCp(t[3]), Chain(t))>>
    [] k = "Comment" -> Toks(t[2]) \o <<P(35)>>
    [] OTHER -> <<P(40)>> \o ToksFrom(t, 2, k = "keywords") \o <<P(41)>>

\* ---- the reference "implementation" ---------------------------------------------------------------------
EntryOf(c, k) == [kind |-> c.kind, self |-> c.self, choice |-> c.choice, res |-> c.res, col |-> "R", txt |-> 1]
CaseOf(e, v, steps) ==
  [texts |-> <<[expr |-> e, style |-> "model", text |-> "t", toks |-> <<>>, hascmt |-> FALSE, comment |-> <<>>]>>,
   doc |-> [attrs |-> v.attrs, res |-> v.res, entries |-> [k \in 1..Len(Contexts) |-> EntryOf(Contexts[k], k)]],
   steps |-> steps, path |-> "RenameColumn"]

SideOf(t, changed) ==
  [present |-> TRUE, text |-> IF changed THEN "t'" ELSE "t", cps |-> Concat(Toks(t), 1), tree |-> t, pexc |-> "",
   has |-> TRUE, stored |-> t, raw |-> IF changed THEN "r'" ELSE "r", rest |-> "rest"]
Ref(inp) ==
  LET e == inp.texts[1].expr
      before == SideOf(e, FALSE)
  IN
  [exc |-> "", renamed |-> TRUE,
   entries |-> [k \in 1..Len(inp.doc.entries) |->
                  LET ctx == CtxOf(inp, inp.doc.entries[k])
                      \* a default rule naming a renamed column: any outcome is admitted; the reference leaves it
                      r == IF Ambiguous(e, ctx, inp.steps) THEN e ELSE Renamed(e, ctx, inp.steps)
                  IN [b |-> before, a |-> IF r = e THEN before ELSE SideOf(r, TRUE)]],
   attrs |-> [k \in 1..Len(inp.doc.attrs) |->
                LET b == [ok |-> TRUE, name |-> inp.doc.attrs[k].name, charId |-> inp.doc.attrs[k].charId,
                          tableId |-> inp.doc.attrs[k].tableId, lookupColId |-> inp.doc.attrs[k].lookupColId,
                          more |-> 0, formula |-> ""]
                IN [b |-> b, a |-> [b EXCEPT !.lookupColId = RenCol(b.tableId, b.lookupColId, inp.steps, 1)]]],
   res |-> [k \in 1..Len(inp.doc.res) |->
              LET b == inp.doc.res[k]
              IN [b |-> b, a |-> [b EXCEPT !.colIds = [i \in 1..Len(b.colIds) |-> RenCol(b.tableId, b.colIds[i], inp.steps, 1)]]]],
   star |-> [b |-> Res("*", <<"*">>), a |-> Res("*", <<"*">>)]]

\* ---- sanity of the specification on every enumerated input -------------------------------------------------
Unrelated == <<Step("T", "Q", "W")>>
TreeSane(e, v, targets) ==
  LET toks == Toks(e) IN
  \A g \in targets :
    LET steps == Targets[g]
        inp == [CaseOf(e, v, steps) EXCEPT !.texts[1].toks = toks]
    IN /\ Ok17(inp, Ref(inp))
       /\ \A k \in 1..Len(Contexts) :
            LET ctx == CtxRec(v, Contexts[k])
                r == Renamed(e, ctx, steps)
            IN /\ WF(r)
               \* rendering commutes with renaming: the token-level and the tree-level notions agree
               /\ ExpectedCps(toks, ctx, steps) = Concat(Toks(r), 1)
               /\ CountsAgree(e, toks, ctx, steps, 1)
               \* after a single rename nothing refers to the old column any more
               /\ Len(steps) = 1 => Hits(r, ctx, steps[1]) = 0
               \* a column nobody mentions changes nothing
               /\ Renamed(e, ctx, Unrelated) = e

\* The combinations that are executed in the real engine (checks/C17.py pairs them the same way).
\* Full (quick tier, small families): a tree of the wide family with every rename, the k-th tree (from 0) of
\* the narrow family with renames k and k+3 (mod the number of renames).  Otherwise: a wide tree with four
\* renames (T.X, U.X, two columns at once or a chain, an unrelated column), a narrow tree with rename k.
\* The document variant is k mod 3 in both families.
VARIABLE i
Init == i \in 1..(IF NE < Lanes THEN NE ELSE Lanes)
Next == i + Lanes <= NE /\ i' = i + Lanes
SpecSane ==
  LET wide == i <= Len(WideExprs)
      k == IF wide THEN i - 1 ELSE i - Len(WideExprs) - 1
      nt == Len(Targets)
  IN /\ WF(ExprSeq[i])
     /\ TreeSane(ExprSeq[i], Variants[(k % Len(Variants)) + 1],
                 IF wide THEN (IF Full THEN 1..nt ELSE {(k % 2) + 1, 3, 6 + (k % 2), 4 + (k % 2)})
                 ELSE (IF Full THEN {(k % nt) + 1, ((k + 3) % nt) + 1} ELSE {(k % nt) + 1}))
=============================================================================
