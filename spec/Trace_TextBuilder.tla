--------------------------- MODULE Trace_TextBuilder ---------------------------
(* Judges recorded runs of the real textbuilder classes against TextBuilder!Clauses.              *)
(* Cases: <<[inp |-> [b, ranges, all], out |-> [text, maps], exc |-> ""]>>; see fn_textbuilder.py *)
EXTENDS TextBuilder, Json, IOUtils
Cases == JsonDeserialize(IOEnv.TRACE_FILE)
N == Len(Cases)
VARIABLES i, bad
Judge(c) ==
  IF ~WellFormed(c.inp.b) THEN {"C37.input"}     \* not an input of the property: harness error
  ELSE IF c.exc # "" THEN {"C37.raised"}
  ELSE Clauses(c.inp, c.out)
Init == i = 0 /\ bad = <<>> /\ (N > 0 \/ JsonSerialize(IOEnv.OUT_FILE, <<>>))
Next ==
  /\ i < N
  /\ i' = i + 1
  /\ bad' = LET j == Judge(Cases[i + 1])
            IN IF j = {} THEN bad ELSE Append(bad, [i |-> i + 1, c |-> j])
  /\ (i' < N \/ JsonSerialize(IOEnv.OUT_FILE, bad'))
Spec == Init /\ [][Next]_<<i, bad>>
View == i
=============================================================================
