---------------------------- MODULE Trace_Schedule ----------------------------
(* Judges recorded calls of the real functions.schedule.SCHEDULE against Schedule!Verdict.          *)
(* Cases: <<[inp |-> <abstract input>, lex |-> 0|1, text |-> <the schedule string that was passed>,   *)
(*           out |-> <<seconds since 2000-01-01 of each returned datetime>>,                          *)
(*           us |-> <<their microsecond fields>>, exc |-> "" | exception class, ...]>>                *)
(* lex = 1: `text` comes from the catalogue of malformed strings (inp is a placeholder).             *)
EXTENDS Schedule, TLC, Json, IOUtils
Cases == JsonDeserialize(IOEnv.TRACE_FILE)
N == Len(Cases)
VARIABLES i, bad
Judge(c) == Verdict(c.inp, c.lex, [out |-> c.out, us |-> c.us, exc |-> c.exc])
Init == i = 0 /\ bad = <<>> /\ (N > 0 \/ JsonSerialize(IOEnv.OUT_FILE, <<>>))
Next ==
  /\ i < N
  /\ i' = i + 1
  /\ bad' = LET j == Judge(Cases[i + 1])
            IN IF j = {} THEN bad ELSE Append(bad, [i |-> i + 1, c |-> j])
  /\ (i' < N \/ JsonSerialize(IOEnv.OUT_FILE, bad'))
Spec == Init /\ [][Next]_<<i, bad>>
View == i
=============================================================================
