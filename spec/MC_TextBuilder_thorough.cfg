INIT Init
NEXT Next
CONSTANTS MaxLen = 4
          MaxLen2 = 4
          Nest <- NestThorough
          MaxParts = 3
          CombP = 2
          BothComb = TRUE
INVARIANT SpecSane
CHECK_DEADLOCK FALSE
