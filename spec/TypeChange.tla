----------------------------- MODULE TypeChange -----------------------------
(***************************************************************************)
(* C23 - changing a data column's type converts each stored value:         *)
(* the user action ['ModifyColumn', 'T', 'X', {'type': to}]                 *)
(* (sandbox/grist/useractions.py ModifyColumn -> _updateColumnRecords ->   *)
(* doModifyColumn; docactions.py ModifyColumn).                            *)
(*                                                                         *)
(* "When a data column's type is changed, each cell's new value is the new *)
(* type's conversion of its previous stored value (alt-text where          *)
(* conversion fails), and no other cell in the document changes apart from *)
(* formula results that depend on it and the reverse column of a two-way   *)
(* reference."                                                             *)
(*                                                                         *)
(* The conversion itself (usertypes.<Type>.convert, contract = C22) is     *)
(* GIVEN: the worker logs, for every row, what the new type makes of the   *)
(* previous stored value, obtained from type / column objects of an engine *)
(* that never sees the type change:                                        *)
(*   conv   <type object of `to`>.convert(prev)                            *)
(*   cconv  <column object of type `to`>.convert(prev)    the same except  *)
(*          for reference types, whose columns (column.py) first take the  *)
(*          head of a list (Ref) / wrap a single row id into a list        *)
(*          (RefList); the property text does not say which of the two is  *)
(*          "the new type's conversion" of such a value: both are admitted *)
(* convert() returns the alt text itself where the conversion fails.       *)
(*                                                                         *)
(* A case (harness/fn_typechange.py; all values are opaque tokens, only    *)
(* compared for equality):                                                 *)
(*   [from, to, two, exc, typ, styp, rows, changed, xref, fields, disp,    *)
(*    rev, fcols]                                                          *)
(*   rows     <<[r, prev, conv, cconv, after]>>  one per row of T before   *)
(*   changed  <<[t, c, r, k]>>  EVERY difference between the document      *)
(*            (all tables, metadata included) before and after:            *)
(*            k = "upd": cell (t, c, r);  "add" / "del": record r of t     *)
(*            (c = "*");  "coladd" / "coldel": column c of t (r = 0);      *)
(*            "tabadd" / "tabdel" / "order": table t                       *)
(*   xref     row id of X in _grist_Tables_column                          *)
(*   fields   row ids of X's records in _grist_Views_section_field         *)
(*   disp     refs of the display helper columns that X.displayCol and its *)
(*            fields' displayCol named before the action                   *)
(*   rev      [t, c] the column that X.reverseCol named before (t = ""     *)
(*            if X is not a two-way reference)                             *)
(*   fcols    <<[t, c, ref, m |-> <<[t, c]>>]>> the formula columns of the *)
(*            user tables before the action and the (table, column) names  *)
(*            their formulas mention                                       *)
(*   typ, styp  X's type after the action in the metadata / in the schema  *)
(***************************************************************************)
EXTENDS Naturals, Sequences, FiniteSets

Range(s) == {s[j] : j \in 1..Len(s)}

\* strings are atomic in TLC: the reference types and their target tables are listed
Target(t) == CASE t \in {"Ref:U", "RefList:U"} -> "U"
               [] t \in {"Ref:V", "RefList:V"} -> "V"
               [] OTHER -> ""
IsRef(t) == Target(t) # ""
Compatible(a, b) == IsRef(a) /\ Target(a) = Target(b)

\* The engine refuses to change the type of a two-way reference column to anything but Ref / RefList
\* of the same table ("invalid change to type of a two-way reference column"): no type is changed,
\* the property says nothing.
Refusable(c) == c.two /\ ~Compatible(c.from, c.to)

\* --- C23.cells --------------------------------------------------------------------------------
CellsOk(c) == \A j \in 1..Len(c.rows) : c.rows[j].after \in {c.rows[j].conv, c.rows[j].cconv}

\* --- C23.frame --------------------------------------------------------------------------------
\* Formula columns whose results depend on X: the formula mentions X, the reverse column of X, or a
\* formula column that does (least fixed point over the mention relation).
Seeds(c) == {<<"T", "X">>} \cup (IF c.rev.t # "" THEN {<<c.rev.t, c.rev.c>>} ELSE {})
MentionsAny(f, S) == \E j \in 1..Len(f.m) : <<f.m[j].t, f.m[j].c>> \in S
RECURSIVE Close(_, _, _)
Close(fc, S, n) ==
  IF n = 0 THEN S
  ELSE LET S2 == S \cup {<<fc[j].t, fc[j].c>> : j \in {k \in 1..Len(fc) : MentionsAny(fc[k], S)}}
       IN IF S2 = S THEN S ELSE Close(fc, S2, n - 1)
DependentFormulas(c) == Close(c.fcols, Seeds(c), Len(c.fcols)) \ Seeds(c)

\* What "changing the column's type" comprises in the column's own metadata: its type and the
\* presentation settings that are tied to the type (widget options, shown column and the display
\* helper it needs) - in X's record and in the records of X's view fields.
ColTypeMeta == {"type", "widgetOptions", "displayCol", "visibleCol"}
FieldTypeMeta == {"widgetOptions", "displayCol", "visibleCol"}

\* a display helper of X: a hidden formula column ($X.<shown column>) that exists only because
\* X.displayCol / a field's displayCol names it
IsDisplayHelper(c, t, col) ==
  \E j \in 1..Len(c.fcols) : c.fcols[j].t = t /\ c.fcols[j].c = col /\ c.fcols[j].ref \in Range(c.disp)

Allowed(c, dep, e) ==
  \* the column itself (judged by C23.cells)
  \/ e.t = "T" /\ e.c = "X" /\ e.k = "upd"
  \* formula results that depend on it
  \/ e.k = "upd" /\ <<e.t, e.c>> \in dep
  \* the reverse column of a two-way reference
  \/ e.k = "upd" /\ c.rev.t # "" /\ e.t = c.rev.t /\ e.c = c.rev.c
  \* the column's own type metadata
  \/ e.k = "upd" /\ e.t = "_grist_Tables_column" /\ e.r = c.xref /\ e.c \in ColTypeMeta
  \/ e.k = "upd" /\ e.t = "_grist_Views_section_field" /\ e.r \in Range(c.fields) /\ e.c \in FieldTypeMeta
  \* a display helper of X that is no longer needed goes away: its record and its (formula) cells
  \/ e.k = "del" /\ e.t = "_grist_Tables_column" /\ e.r \in Range(c.disp)
  \/ e.k = "coldel" /\ IsDisplayHelper(c, e.t, e.c)

FrameOk(c) == LET dep == DependentFormulas(c)     \* evaluated once per case
              IN \A j \in 1..Len(c.changed) : Allowed(c, dep, c.changed[j])

\* --- C23.anchor -------------------------------------------------------------------------------
\* convert() is taken from the code (C22), but it has to be a FUNCTION of the type and the value: a few
\* conversions are pinned down here by their meaning, so that a conversion that depends on what was
\* converted before (a cache shared between columns, say) cannot agree with itself and pass.
\* An ISO date-time text without an offset denotes that wall-clock time in the zone of the column:
\*   2024-01-01T10:00:00  = 1704103200 UTC;  New York is UTC-5 in January, Tokyo UTC+9
\*   2024-06-15 08:00:00  = 1718438400 UTC;  New York is UTC-4 in June
Anchor(to, prev) ==
  CASE to = "DateTime:UTC"              /\ prev = "s2024-01-01T10:00:00" -> "#1704103200"
    [] to = "DateTime:America/New_York" /\ prev = "s2024-01-01T10:00:00" -> "#1704121200"
    [] to = "DateTime:Asia/Tokyo"       /\ prev = "s2024-01-01T10:00:00" -> "#1704070800"
    [] to = "DateTime:UTC"              /\ prev = "s2024-06-15 08:00:00" -> "#1718438400"
    [] to = "DateTime:America/New_York" /\ prev = "s2024-06-15 08:00:00" -> "#1718452800"
    [] to = "DateTime:Asia/Tokyo"       /\ prev = "s2024-06-15 08:00:00" -> "#1718406000"
    [] to = "Date"                      /\ prev = "s2024-01-01"          -> "#1704067200"
    [] to = "Int"                       /\ prev = "s1"                   -> "#1"
    [] to = "Numeric"                   /\ prev = "s1.5"                 -> "#1.5"
    [] to = "Bool"                      /\ prev = "strue"                -> "b1"
    [] OTHER -> ""
\* (evaluated on recorded cases, whose values are tokens: Trace_TypeChange)
AnchorsOk(c) == \A j \in 1..Len(c.rows) :
                  LET a == Anchor(c.to, c.rows[j].prev) IN a = "" \/ c.rows[j].after = a

Clauses(c) ==
  (IF CellsOk(c) THEN {} ELSE {"C23.cells"}) \cup
  (IF FrameOk(c) THEN {} ELSE {"C23.frame"})

Judge(c) ==
  IF c.exc # "" THEN (IF Refusable(c) /\ c.exc = "ValueError" THEN {} ELSE {"C23.raised"})
  \* the action returned normally, so the column has the new type (every type pair can be changed)
  ELSE IF c.typ # c.to \/ c.styp # c.to THEN {"C23.applied"}
  ELSE Clauses(c)

Ok(c) == Judge(c) = {}
=============================================================================
