----------------------------- MODULE Trace_Doc -----------------------------
(***************************************************************************)
(* Trace specification for recorded engine histories (C->S direction).     *)
(*                                                                         *)
(* Input: a JSON shard  [ints, traces : <<[tid, init, events]>>]           *)
(* written by harness/driver.py from executions of the real engine.        *)
(* Every event is one public call of the engine (one specification         *)
(* action): a bundle, an undo, a redo, a Calculate, a failed bundle, a     *)
(* reopen.  The specification keeps its OWN document `mdl`, advanced only  *)
(* by interpreting the stored doc actions (DocActions!Apply), and the      *)
(* observed document `obs`, advanced only by the state deltas the harness  *)
(* read out of the engine.  It never blocks: every step evaluates all      *)
(* clauses, appends the failed ones to `verdict`, re-synchronises and      *)
(* goes on, so the rest of the trace is still examined.                    *)
(***************************************************************************)
EXTENDS DocActions, Meta, TLC, TLCExt

Traces == File.traces
NT     == Len(Traces)

VARIABLES
  ti,       \* index of the trace being validated (NT+1 when finished)
  l,        \* number of events of trace ti consumed so far
  mdl,      \* the specification's document (advanced by stored actions only)
  obs,      \* the observed document (advanced by observed deltas only)
  snaps,    \* snaps[i] = observed document before event i (snaps[l+1] = now)
  sch,      \* last logged engine.schema
  verdict,  \* sequence of failed clauses [l, c, d] of the current trace
  done      \* verdicts of the finished traces: <<[tid, n, v]>>

vars == <<ti, l, mdl, obs, snaps, sch, verdict, done>>

Events(i) == Traces[i].events

(***************************************************************************)
(* Observed documents                                                      *)
(***************************************************************************)
ApplyDelta(o, d) ==
  LET removed == SeqRange(d.removed)
      dom == ((DOMAIN o) \ removed) \cup (DOMAIN d.tables)
  IN [t \in dom |-> IF t \in DOMAIN d.tables THEN d.tables[t] ELSE o[t]]

FromObs(o) == [t \in DOMAIN o |-> FromObsTable(o[t], o[t].base)]

Touched(as) == {as[i].t : i \in 1..Len(as)} \cup
               {as[i].id2 : i \in {j \in 1..Len(as) : as[j].n = "RenameTable"}}

DeltaDom(d) == (DOMAIN d.tables) \cup SeqRange(d.removed)

\* Tables on which model and observation disagree, looking only where something could have changed.
Mismatch(m, o, S) ==
  {t \in S : \/ (t \in DOMAIN m) # (t \in DOMAIN o)
             \/ (t \in DOMAIN m /\ t \in DOMAIN o /\ ~SameTable(m[t], o[t]))}

Resync(m, o, bad) ==
  [t \in DOMAIN o |-> IF t \in bad \/ t \notin DOMAIN m
                      THEN FromObsTable(o[t], o[t].base) ELSE m[t]]

DiffObs(a, b) ==
  {t \in (DOMAIN a) \cup (DOMAIN b) : t \notin DOMAIN a \/ t \notin DOMAIN b \/ a[t] # b[t]}

Fail(lnum, clause, detail) == <<[l |-> lnum, c |-> clause, d |-> detail]>>
Check(ok, lnum, clause, detail) == IF ok THEN <<>> ELSE Fail(lnum, clause, detail)

(***************************************************************************)
(* State and action clauses of the metadata layer (Meta.tla), evaluated    *)
(* after every successful call on the tables that changed.                 *)
(***************************************************************************)
MetaChecks(p, o2, sch2, ev, n) ==
  LET D == DeltaDom(ev.delta)
      metaTouched == D \cap MetaTables # {}
      \* C10 speaks about removals requested through user actions; ApplyUndoActions/ApplyDocActions
      \* replay raw doc actions and are judged by C01/C03 instead
      \* ... and only calls that request nothing but removals are judged: a bundle that removes a row
      \* and then explicitly writes its id into a cell is asking for the dangling reference
      removedSomewhere == ev.tag = "ua" /\ ev.onlyrm /\ \E t \in D : Removed(p, o2, t) # {}
  IN (IF metaTouched
      THEN Check(DanglingMetaRefs(o2) = {}, n, "C09.resolve", DanglingMetaRefs(o2))
           \o Check(NullMetaRefs(o2) = {}, n, "C09.nonnull", NullMetaRefs(o2))
           \o Check(FieldColMismatch(o2) = {}, n, "C09.fieldcol", FieldColMismatch(o2))
           \o Check(RawSectionMismatch(o2) = {}, n, "C09.rawsection", RawSectionMismatch(o2))
           \o Check(TableRecordMismatch(o2, sch2) = {}, n, "C09.onerec", TableRecordMismatch(o2, sch2))
           \o Check(UnusedHelpers(o2) = {}, n, "C09.helpers", UnusedHelpers(o2))
      ELSE <<>>)
     \o Check(BadPositions(o2, D) = {}, n, "C20.positions", BadPositions(o2, D))
     \o (IF HasTwoWay(o2) THEN Check(TwoWayViolations(o2) = {}, n, "C11.symmetric", TwoWayViolations(o2))
         ELSE <<>>)
     \o (IF HasSummary(o2) THEN Check(SummaryViolations(o2) = {}, n, "C12.exact", SummaryViolations(o2))
         ELSE <<>>)
     \o (IF removedSomewhere
         THEN Check(StillPointing(p, o2, DOMAIN o2) = {}, n, "C10.ref", StillPointing(p, o2, DOMAIN o2))
              \o Check(BadRefListCleanup(p, o2, DOMAIN o2) = {}, n, "C10.reflist",
                       BadRefListCleanup(p, o2, DOMAIN o2))
         ELSE <<>>)

(***************************************************************************)
(* One event                                                               *)
(***************************************************************************)
StepEvent(ev, n) ==
  LET o2   == ApplyDelta(obs, ev.delta)
      sch2 == IF "schema" \in DOMAIN ev THEN ev.schema ELSE sch
  IN
  IF ev.k = "P" THEN
    \* A sibling engine (reopened C07 / rebuilt from scratch C05 / peer process C30) compared with this
    \* one: the document does not advance; the sibling must report the same data, and quietly.
    /\ obs' = obs
    /\ mdl' = mdl
    /\ sch' = sch
    /\ snaps' = Append(snaps, obs)
    /\ verdict' = verdict
         \o Check(DeltaDom(ev.delta) = {}, n, ev.clause, DeltaDom(ev.delta))
         \o (IF ev.qclause # "" THEN Check(Len(ev.stored) = 0, n, ev.qclause, Touched(ev.stored)) ELSE <<>>)
  ELSE IF ev.k = "Q" THEN
    \* A read-only public call (C29): whether it returned or raised, nothing may have changed.
    /\ obs' = o2
    /\ mdl' = Resync(mdl, o2, DeltaDom(ev.delta))
    /\ sch' = sch2
    /\ snaps' = Append(snaps, o2)
    /\ verdict' = verdict
         \o Check(DeltaDom(ev.delta) = {}, n, "C29.unchanged", DeltaDom(ev.delta))
         \o Check(sch2 = sch, n, "C29.schema", {})
  ELSE IF ev.k = "F" THEN
    \* A call that raised (C04): nothing may have changed, the schema is the metadata's.
    /\ obs' = o2
    /\ mdl' = Resync(mdl, o2, DeltaDom(ev.delta))
    /\ sch' = sch2
    /\ snaps' = Append(snaps, o2)
    /\ verdict' = verdict
         \o Check(DeltaDom(ev.delta) = {}, n, "C04.unchanged", DeltaDom(ev.delta))
         \o Check(sch2 = sch, n, "C04.schema", {})
         \* the undo / redo of a bundle that succeeded must itself be applicable
         \o Check(ev.tag # "undo", n, "C01.applies", {})
         \o Check(ev.tag # "redo", n, "C03.applies", {})
         \* a Calculate that must be silent (after a failed bundle / after read-only calls) must not raise
         \o (IF ev.tag = "quiet" THEN Fail(n, ev.clause, {}) ELSE <<>>)
         \o Check(SchemaMatchesMeta(o2, sch2), n, "C08.schema", SchemaDiff(o2, sch2))
  ELSE
    LET m2   == ApplyAll(mdl, ev.stored)
        S    == Touched(ev.stored) \cup DeltaDom(ev.delta)
        bad  == Mismatch(m2, o2, S)
        ill  == IllFormed(mdl, ev.stored)
    IN
    /\ obs' = o2
    /\ mdl' = IF bad = {} THEN m2 ELSE Resync(m2, o2, bad)
    /\ sch' = sch2
    /\ snaps' = Append(snaps, o2)
    /\ verdict' = verdict
         \o Check(bad = {}, n, "C02.replay", bad)
         \o Check(ill = {}, n, "C02.applicable", ill)
         \o Check(Len(ev.direct) = Len(ev.stored), n, "C31.parallel", {})
         \o (IF ev.tag = "ua"
             THEN Check(BadDirect(obs, o2, ev.stored, ev.direct, ev.req) = {}, n, "C31.flags",
                        BadDirect(obs, o2, ev.stored, ev.direct, ev.req))
             ELSE <<>>)
         \o (IF ev.tag = "undo"
             THEN Check(o2 = snaps[ev.of], n, "C01.restore", DiffObs(o2, snaps[ev.of]))
             ELSE <<>>)
         \o (IF ev.tag = "redo"
             THEN Check(o2 = snaps[ev.of + 1], n, "C03.redo", DiffObs(o2, snaps[ev.of + 1]))
             ELSE <<>>)
         \o (IF ev.tag = "quiet"
             \* Calculate after a failed bundle / read-only calls / reopen: no changes at all.
             THEN Check(Len(ev.stored) = 0 /\ DeltaDom(ev.delta) = {}, n, ev.clause, {})
             ELSE <<>>)
         \o Check(SchemaMatchesMeta(o2, sch2), n, "C08.schema", SchemaDiff(o2, sch2))
         \o MetaChecks(obs, o2, sch2, ev, n)

Init ==
  /\ ti = 1
  /\ l = 0
  /\ obs = IF NT > 0 THEN Traces[1].init ELSE EmptyDoc
  /\ mdl = FromObs(obs)
  /\ snaps = <<obs>>
  /\ sch = IF NT > 0 THEN Traces[1].schema ELSE EmptyDoc
  /\ verdict = <<>>
  /\ done = <<>>

Step ==
  /\ ti <= NT
  /\ l < Len(Events(ti))
  /\ l' = l + 1
  /\ ti' = ti
  /\ done' = done
  /\ StepEvent(Events(ti)[l + 1], l + 1)

NextTrace ==
  /\ ti <= NT
  /\ l = Len(Events(ti))
  /\ done' = Append(done, [tid |-> Traces[ti].tid, n |-> l, v |-> verdict])
  \* the verdict file is written once, when the last trace has been judged
  /\ (ti < NT \/ JsonSerialize(IOEnv.OUT_FILE, done'))
  /\ ti' = ti + 1
  /\ l' = 0
  /\ obs' = IF ti < NT THEN Traces[ti + 1].init ELSE EmptyDoc
  /\ mdl' = FromObs(obs')
  /\ snaps' = <<obs'>>
  /\ sch' = IF ti < NT THEN Traces[ti + 1].schema ELSE EmptyDoc
  /\ verdict' = <<>>

Next == Step \/ NextTrace

Spec == Init /\ [][Next]_vars

View == <<ti, l>>

=============================================================================
