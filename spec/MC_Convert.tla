----------------------------- MODULE MC_Convert -----------------------------
(* Bounded design model of C22.  One state per input  [t, c, a, l]:                                 *)
(*   t  column type          c  "atom" | "list" | "tuple"                                           *)
(*   a  code of an atom of the universe (1-based index into Atoms; 0 for compound values)           *)
(*   l  for compound values: the codes of the elements (taken from ElemCodes), length <= MaxLen     *)
(* Atoms is the universe of representative Python values: what the specification takes each value   *)
(* to be (kind, exact class, int-shortness, element kinds).  harness/fn_convert.py holds the Python *)
(* value of every code; its own description of those values is compared with Atoms on every run.    *)
(* The input space and Atoms are written to OUT_FILE; the real convert() is run on exactly these.   *)
(* SpecSane: the admissible-output relation accepts the witness Ref on every input.                 *)
EXTENDS Convert, TLC, Json, IOUtils, SequencesExt, FiniteSetsExt
CONSTANTS MaxLen

E(k, x, sh) == [k |-> k, x |-> x, sh |-> sh]
D(name, k, x, sh) == [name |-> name, k |-> k, x |-> x, sh |-> sh, rl |-> FALSE, el |-> <<>>]
DL(name, k, x, rl, el) == [name |-> name, k |-> k, x |-> x, sh |-> FALSE, rl |-> rl, el |-> el]

Atoms == <<
  D("None", "none", TRUE, FALSE),                                              \* 1
  D("True", "bool", TRUE, FALSE),                                              \* 2
  D("False", "bool", TRUE, FALSE),                                             \* 3
  D("0", "int", TRUE, TRUE),                                                   \* 4
  D("1", "int", TRUE, TRUE),                                                   \* 5
  D("-1", "int", TRUE, TRUE),                                                  \* 6
  D("2**31-1", "int", TRUE, TRUE),                                             \* 7
  D("2**31", "int", TRUE, FALSE),                                              \* 8
  D("-2**31", "int", TRUE, TRUE),                                              \* 9
  D("-2**31-1", "int", TRUE, FALSE),                                           \* 10
  D("2**63", "int", TRUE, FALSE),                                              \* 11
  D("10**30", "int", TRUE, FALSE),                                             \* 12
  D("2**1024", "int", TRUE, FALSE),                                            \* 13
  D("10**5000", "int", TRUE, FALSE),                                           \* 14
  D("0.0", "float", TRUE, FALSE),                                              \* 15
  D("-0.0", "float", TRUE, FALSE),                                             \* 16
  D("1.0", "float", TRUE, FALSE),                                              \* 17
  D("1.5", "float", TRUE, FALSE),                                              \* 18
  D("-2.5", "float", TRUE, FALSE),                                             \* 19
  D("2.0**31", "float", TRUE, FALSE),                                          \* 20
  D("1e30", "float", TRUE, FALSE),                                             \* 21
  D("nan", "float", TRUE, FALSE),                                              \* 22
  D("inf", "float", TRUE, FALSE),                                              \* 23
  D("-inf", "float", TRUE, FALSE),                                             \* 24
  D("''", "str", TRUE, FALSE),                                                 \* 25
  D("'a'", "str", TRUE, FALSE),                                                \* 26
  D("'1'", "str", TRUE, FALSE),                                                \* 27
  D("'1.5'", "str", TRUE, FALSE),                                              \* 28
  D("' 2 '", "str", TRUE, FALSE),                                              \* 29
  D("'true'", "str", TRUE, FALSE),                                             \* 30
  D("'No'", "str", TRUE, FALSE),                                               \* 31
  D("'2020-01-01'", "str", TRUE, FALSE),                                       \* 32
  D("'2020-01-01T12:00:00+02:00'", "str", TRUE, FALSE),                        \* 33
  D("'nan'", "str", TRUE, FALSE),                                              \* 34
  D("'1e400'", "str", TRUE, FALSE),                                            \* 35
  D("'2147483648'", "str", TRUE, FALSE),                                       \* 36
  D("'e-acute'", "str", TRUE, FALSE),                                          \* 37
  D("'[]'", "str", TRUE, FALSE),                                               \* 38
  D("'[1, 2]'", "str", TRUE, FALSE),                                           \* 39
  D("'[0]'", "str", TRUE, FALSE),                                              \* 40
  D("'[\"a\", \"b\"]'", "str", TRUE, FALSE),                                   \* 41
  D("'[1'", "str", TRUE, FALSE),                                               \* 42
  D("'RecordList([1, 2])'", "str", TRUE, FALSE),                               \* 43
  D("b''", "bytes", TRUE, FALSE),                                              \* 44
  D("b'x'", "bytes", TRUE, FALSE),                                             \* 45
  D("b'1'", "bytes", TRUE, FALSE),                                             \* 46
  D("b'\\xff'", "bytes", TRUE, FALSE),                                         \* 47
  D("{}", "dict", TRUE, FALSE),                                                \* 48
  D("{'a': 1}", "dict", TRUE, FALSE),                                          \* 49
  D("{1: 2}", "dict", TRUE, FALSE),                                            \* 50
  D("date(2020,1,1)", "date", TRUE, FALSE),                                    \* 51
  D("date(1,1,1)", "date", TRUE, FALSE),                                       \* 52
  D("datetime naive", "datetime", TRUE, FALSE),                                \* 53
  D("datetime New_York", "datetime", TRUE, FALSE),                             \* 54
  D("datetime +02:00", "datetime", TRUE, FALSE),                               \* 55
  D("T[1]", "record", FALSE, FALSE),                                           \* 56
  D("T[0]", "record", FALSE, FALSE),                                           \* 57
  D("U[1]", "record", FALSE, FALSE),                                           \* 58
  D("T[[1, 2]]", "recordset", FALSE, FALSE),                                   \* 59
  D("T[[]]", "recordset", FALSE, FALSE),                                       \* 60
  D("U[[1]]", "recordset", FALSE, FALSE),                                      \* 61
  DL("RecordList([1, 2])", "list", FALSE, TRUE, <<E("int", TRUE, TRUE), E("int", TRUE, TRUE)>>), \* 62
  DL("RecordList([])", "list", FALSE, TRUE, <<>>),                             \* 63
  D("AltText('a')", "alttext", TRUE, FALSE),                                   \* 64
  D("AltText('1')", "alttext", TRUE, FALSE),                                   \* 65
  D("AltText('1.5')", "alttext", TRUE, FALSE),                                 \* 66
  D("AltText('true')", "alttext", TRUE, FALSE),                                \* 67
  D("AltText('2020-01-01')", "alttext", TRUE, FALSE),                          \* 68
  D("AltText('[\"a\"]')", "alttext", TRUE, FALSE),                             \* 69
  D("AltText('[1]')", "alttext", TRUE, FALSE),                                 \* 70
  D("RaisedException(ValueError)", "error", TRUE, FALSE),                      \* 71
  D("RaisedException(ValueError, user_input=1)", "error", TRUE, FALSE),        \* 72
  D("RaisedException(InvalidTypedValue)", "error", TRUE, FALSE),               \* 73
  D("MyInt(7)", "int", FALSE, TRUE),                                           \* 74
  D("MyInt(0)", "int", FALSE, TRUE),                                           \* 75
  D("MyStr('s')", "str", FALSE, FALSE),                                        \* 76
  D("MyStr('1')", "str", FALSE, FALSE),                                        \* 77
  D("MyFloat(2.5)", "float", FALSE, FALSE),                                    \* 78
  D("IntEnum 1", "int", FALSE, TRUE),                                          \* 79
  D("object()", "other", FALSE, FALSE),                                        \* 80
  D("complex(1, 0)", "other", FALSE, FALSE),                                   \* 81
  D("Decimal('1')", "other", FALSE, FALSE),                                    \* 82
  D("{1, 2}", "other", FALSE, FALSE),                                          \* 83
  D("range(3)", "other", FALSE, FALSE),                                        \* 84
  D("BadRepr()", "other", FALSE, FALSE),                                       \* 85
  DL("[[]]", "list", TRUE, FALSE, <<E("list", TRUE, FALSE)>>),                 \* 86
  DL("[[1]]", "list", TRUE, FALSE, <<E("list", TRUE, FALSE)>>),                \* 87
  DL("['L', 1]", "list", TRUE, FALSE, <<E("str", TRUE, FALSE), E("int", TRUE, TRUE)>>), \* 88
  DL("[1, 2, 3]", "list", TRUE, FALSE, <<E("int", TRUE, TRUE), E("int", TRUE, TRUE), E("int", TRUE, TRUE)>>), \* 89
  DL("('a', 'b')", "tuple", TRUE, FALSE, <<E("str", TRUE, FALSE), E("str", TRUE, FALSE)>>), \* 90
  DL("[T[1], T[2]]", "list", TRUE, FALSE, <<E("record", FALSE, FALSE), E("record", FALSE, FALSE)>>), \* 91
  DL("[T[[1]], T[[2, 1]]]", "list", TRUE, FALSE, <<E("recordset", FALSE, FALSE), E("recordset", FALSE, FALSE)>>),   \* 92
  \* the remaining objects of fn_convert.OBJECTS (all of kind "other")
  D("<badstr>", "other", FALSE, FALSE),                                        \* 93
  D("<bytearray>", "other", FALSE, FALSE),                                     \* 94
  D("<censored>", "other", FALSE, FALSE),                                      \* 95
  D("<class>", "other", FALSE, FALSE),                                         \* 96
  D("<decimal1.5>", "other", FALSE, FALSE),                                    \* 97
  D("<decimal2020>", "other", FALSE, FALSE),                                   \* 98
  D("<ellipsis>", "other", FALSE, FALSE),                                      \* 99
  D("<emptyiter>", "other", FALSE, FALSE),                                     \* 100
  D("<emptyset>", "other", FALSE, FALSE),                                      \* 101
  D("<fraction1>", "other", FALSE, FALSE),                                     \* 102
  D("<fraction1/2>", "other", FALSE, FALSE),                                   \* 103
  D("<frozenset>", "other", FALSE, FALSE),                                     \* 104
  D("<function>", "other", FALSE, FALSE),                                      \* 105
  D("<iter>", "other", FALSE, FALSE),                                          \* 106
  D("<pending>", "other", FALSE, FALSE),                                       \* 107
  D("<range0>", "other", FALSE, FALSE),                                        \* 108
  D("<recordstub>", "other", FALSE, FALSE),                                    \* 109
  D("<reflookup>", "other", FALSE, FALSE),                                     \* 110
  D("<setstr>", "other", FALSE, FALSE),                                        \* 111
  D("<strnotstr>", "other", FALSE, FALSE),                                     \* 112
  D("<time>", "other", FALSE, FALSE),                                          \* 113
  D("<timedelta>", "other", FALSE, FALSE),                                     \* 114
  D("<unmarshallable>", "other", FALSE, FALSE)                                 \* 115
>>

\* elements of the enumerated lists / tuples:
\* None, True, 0, 1, 2**31, 1.0, 1.5, '', 'a', '1', date, T[1], AltText('a'), RaisedException, MyInt(7)
ElemCodes == {1, 2, 4, 5, 8, 17, 18, 25, 26, 27, 51, 56, 64, 71, 74}

Codes == 1..Len(Atoms)
Values ==
  {[c |-> "atom", a |-> a, l |-> <<>>] : a \in Codes} \cup
  {[c |-> c, a |-> 0, l |-> l] : c \in {"list", "tuple"}, l \in UNION {[1..n -> ElemCodes] : n \in 0..MaxLen}}
Inputs == {[t |-> t, c |-> v.c, a |-> v.a, l |-> v.l] : t \in Types, v \in Values}

\* the descriptor of an enumerated value (tok is a unique name here; the worker records real tokens)
Desc(v) ==
  IF v.c = "atom"
  THEN LET d == Atoms[v.a]
       IN [k |-> d.k, x |-> d.x, sh |-> d.sh, rl |-> d.rl, el |-> d.el, tok |-> d.name]
  ELSE [k |-> v.c, x |-> TRUE, sh |-> FALSE, rl |-> FALSE,
        el |-> [i \in 1..Len(v.l) |-> E(Atoms[v.l[i]].k, Atoms[v.l[i]].x, Atoms[v.l[i]].sh)],
        tok |-> ToString(<<v.c, v.l>>)]

AtomDesc(a) == Desc([c |-> "atom", a |-> a, l |-> <<>>])
ByName(n) == AtomDesc(CHOOSE a \in Codes : Atoms[a].name = n)

\* ---- sanity of the relation on the universe (evaluated once, before the model is explored) ----
ASSUME \A a \in Codes : Atoms[a].k \in Kinds
ASSUME \A a, b \in Codes : Atoms[a].name = Atoms[b].name => a = b
\* the documented default value of every type (usertypes._type_defaults) belongs to the type
Default(t) ==
  CASE t \in {"Text", "Choice"} -> "''"
    [] t = "Numeric" -> "0.0"
    [] t \in {"Int", "Id", "Ref"} -> "0"
    [] t = "Bool" -> "False"
    [] t \in {"ManualSortPos", "PositionNumber"} -> "inf"
    [] OTHER -> "None"
ASSUME \A t \in Types : RightType(t, ByName(Default(t)))
\* errors, alt-text wrappers and arbitrary objects belong to no type but Any; a text value belongs to
\* the text types only (so the three disjuncts of Admissible are distinct cases)
ASSUME \A t \in Types \ {"Any"}, a \in Codes :
         Atoms[a].k \in {"error", "alttext", "other", "bytes", "dict", "record", "recordset", "date", "datetime"}
           => ~RightType(t, AtomDesc(a))
ASSUME \A t \in Types \ {"Any", "Text", "Choice"}, a \in Codes : Atoms[a].k = "str" => ~RightType(t, AtomDesc(a))
\* the facts that distinguish the numeric types
ASSUME /\ RightType("Date", ByName("True")) /\ ~RightType("Numeric", ByName("True"))
       /\ ~RightType("Int", ByName("True")) /\ ~RightType("Int", ByName("2**31")) /\ RightType("Numeric", ByName("2**31"))
       /\ RightType("Int", ByName("-2**31")) /\ ~RightType("Int", ByName("1.0")) /\ ~RightType("Int", ByName("MyInt(7)"))
       /\ RightType("Date", ByName("MyInt(7)")) /\ ~RightType("Numeric", ByName("MyFloat(2.5)"))
       /\ ~RightType("ManualSortPos", ByName("None")) /\ RightType("Numeric", ByName("None")) /\ ~RightType("Id", ByName("None"))
       /\ RightType("Text", ByName("MyStr('s')")) /\ RightType("Bool", ByName("None")) /\ ~RightType("Bool", ByName("1"))
\* list types
ASSUME /\ RightType("ChoiceList", ByName("('a', 'b')")) /\ ~RightType("ChoiceList", ByName("['L', 1]"))
       /\ RightType("RefList", ByName("[1, 2, 3]")) /\ ~RightType("RefList", ByName("('a', 'b')"))
       /\ RightType("RefList", ByName("RecordList([1, 2])")) /\ RightType("ChoiceList", ByName("RecordList([])"))
       /\ ~RightType("RefList", ByName("[[1]]")) /\ ~RightType("Attachments", ByName("[T[1], T[2]]"))
       /\ ~RightType("RefList", Desc([c |-> "list", a |-> 0, l |-> <<8>>]))     \* [2**31]
       /\ ~RightType("RefList", Desc([c |-> "list", a |-> 0, l |-> <<2>>]))     \* [True]
       /\ ~RightType("RefList", Desc([c |-> "tuple", a |-> 0, l |-> <<5>>]))    \* (1,)
       /\ RightType("RefList", Desc([c |-> "list", a |-> 0, l |-> <<5, 4>>]))   \* [1, 0]
       /\ RightType("ChoiceList", Desc([c |-> "tuple", a |-> 0, l |-> <<>>]))   \* ()
\* the relation can fail: for every type but Any some value is neither of the type nor a string
ASSUME \A t \in Types \ {"Any"} : \E a \in Codes : ~Admissible(t, AtomDesc(a), AtomDesc(a), FALSE)
\* ... and the judge names the right clause
Bad(t, inp, out, out2) == [t |-> t, inp |-> inp, out |-> out, out2 |-> out2, same |-> FALSE, same2 |-> FALSE,
                           exc |-> "", exc2 |-> ""]
ASSUME Clauses(Bad("Int", ByName("'1.5'"), ByName("1.5"), ByName("1.5"))) = {"C22.kind"}
ASSUME Clauses(Bad("ChoiceList", ByName("'[]'"), Desc([c |-> "tuple", a |-> 0, l |-> <<>>]), ByName("None")))
         = {"C22.idempotent"}
ASSUME Clauses([Bad("Int", ByName("'a'"), ByName("'a'"), ByName("'a'")) EXCEPT !.exc = "ValueError"]) = {"C22.total"}
ASSUME Clauses([Bad("Int", ByName("'a'"), ByName("'a'"), ByName("'a'")) EXCEPT !.exc2 = "ValueError"]) = {"C22.total"}
\* an error object is admissible only if it is the input itself
ASSUME Clauses(Bad("Int", ByName("'a'"), ByName("RaisedException(ValueError)"), ByName("RaisedException(ValueError)")))
         = {"C22.kind"}
ASSUME Clauses([Bad("Int", ByName("RaisedException(ValueError)"), ByName("RaisedException(ValueError)"),
                    ByName("RaisedException(ValueError)")) EXCEPT !.same = TRUE, !.same2 = TRUE]) = {}

ASSUME "OUT_FILE" \in DOMAIN IOEnv
       => JsonSerialize(IOEnv.OUT_FILE, [atoms |-> Atoms, types |-> SetToSeq(Types), inputs |-> SetToSeq(Inputs)])

VARIABLE input
Init == input \in Inputs
Next == UNCHANGED input
SpecSane == Ok(Ref(input.t, Desc(input)))
=============================================================================
