----------------------------- MODULE MC_Migrate -----------------------------
(* Bounded design model for C25.  The facts of the tree under test (HIST_FILE, written by            *)
(* harness/fn_migrate.py in mode "history") give, for every start version v in 0..SCHEMA_VERSION,    *)
(* the metadata schema the code's own migrations 1..v produce, the groups of optional tables that    *)
(* exist, and the Text cells of that version.  TLC enumerates the case descriptors                   *)
(*   pop : start version x which groups of optional tables are populated (x legacy column types,     *)
(*         x metadata-only call where the code permits it), plain text everywhere;                   *)
(*   uni : start version x text class, the class in every Text cell, everything populated;           *)
(*   one : start version x one Text column x text class, everything populated;                       *)
(* the worker expands each into a document and calls the real create_migrations.                     *)
(* SpecSane: from every start version the relation of Migrate.tla is satisfied by the reference      *)
(* migration (non-vacuity), and rejects the empty migration whenever the version is not current.     *)
EXTENDS Migrate, Json, IOUtils, SequencesExt, FiniteSetsExt
CONSTANTS Classes,      \* text classes for uni / one cases
          PopLow,       \* populated sets with at most PopLow groups ...
          PopHigh,      \* ... or lacking at most PopHigh groups
          OneStep       \* one-cases at the versions v with v % OneStep = 0 (0 = none)

Hist == JsonDeserialize(IOEnv.HIST_FILE)
Env == [curn |-> Hist.curn, curv |-> Hist.curv, cur |-> Hist.cur, schemas |-> Hist.schemas]
Versions == 0..Hist.curn
GroupsAt(v) == SeqRange(Hist.groups[ToString(v)])
TargetsAt(v) == SeqRange(Hist.targets[ToString(v)])
Bools(b) == IF b THEN BOOLEAN ELSE {FALSE}

Desc(k, v, pop, t, c, cls, old, mo) ==
  [k |-> k, v |-> v, pop |-> SetToSeq(pop), t |-> t, c |-> c, cls |-> cls, old |-> old, mo |-> mo]

PopSets(v) == {p \in SUBSET GroupsAt(v) :
                 Cardinality(p) <= PopLow \/ Cardinality(p) >= Cardinality(GroupsAt(v)) - PopHigh}
PopCases == UNION {{Desc("pop", v, p, "", "", "plain", old, mo) :
                      p \in PopSets(v),
                      old \in Bools(Len(Hist.legacy[ToString(v)]) > 0),
                      mo \in Bools(~Hist.needall[ToString(v)])} : v \in Versions}
UniCases == {Desc("uni", v, GroupsAt(v), "*", "*", cls, FALSE, FALSE) : v \in Versions, cls \in Classes}
OneCases == {Desc("one", x[1], GroupsAt(x[1]), x[2][1], x[2][2], cls, FALSE, FALSE) :
               x \in UNION {{<<v, tc>> : tc \in TargetsAt(v)}
                            : v \in {w \in Versions : OneStep > 0 /\ w % OneStep = 0}},
               cls \in Classes}

Valid == PopCases \cup UniCases \cup OneCases

\* versions from which the specification is satisfiable and not trivially so.  (From the current version
\* it is satisfiable only if the code's own version-SCHEMA_VERSION metadata is the current schema; if it
\* is not, that is a defect of the tree, reported by the judge on the recorded calls, not a broken model.)
SaneVersions ==
  {v \in Versions :
     \/ v = Hist.curn /\ Hist.schemas[ToString(v)] # Hist.cur
     \/ /\ Ok(RefCase(v, Env), Env)
        /\ (v # Hist.curn => ~Ok(SchemaCase(v, Env, <<>>), Env))}

ASSUME /\ "OUT_FILE" \in DOMAIN IOEnv => JsonSerialize(IOEnv.OUT_FILE, SetToSeq(Valid))

VARIABLE input
Init == input \in Valid
Next == UNCHANGED input
SpecSane == input.v \in SaneVersions
=============================================================================
