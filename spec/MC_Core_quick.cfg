SPECIFICATION Spec
CONSTANTS
  PIds = {1, 2}
  OIds = {1, 2, 3}
  Names = {"x", "y"}
  Kinds = {"a", "b"}
  Amts = {1, 2}
INVARIANT Closed
INVARIANT RejectedUnchanged
INVARIANT PredicatesHold
INVARIANT InverseLists
INVARIANT SummaryPartition
CHECK_DEADLOCK FALSE
