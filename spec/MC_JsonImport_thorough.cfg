INIT Init
NEXT Next
CONSTANTS MaxNodes = 4
          MaxNodesOpt = 3
          MaxDepth = 3
          Shards = 16
INVARIANT SpecSane
CHECK_DEADLOCK FALSE
