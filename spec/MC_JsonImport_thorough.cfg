INIT Init
NEXT Next
CONSTANTS MaxNodes = 7
          MaxNodesOpt = 5
          MaxDepth = 3
          Shards = 16
INVARIANT SpecSane
CHECK_DEADLOCK FALSE
