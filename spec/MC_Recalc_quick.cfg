SPECIFICATION Spec
CONSTANTS ColSeq <- Cols3
          Rows = {1}
          AllowCross = FALSE
INVARIANT NoProgressFailureUnreachable
INVARIANT FinalValues
INVARIANT LockDiscipline
INVARIANT CleanEnd
PROPERTY Termination
CHECK_DEADLOCK FALSE
