SPECIFICATION Spec
VIEW View
CHECK_DEADLOCK FALSE
CONSTANTS Rows = {1, 2}
          Vals = {0, 1}
          MaxUAs = 3
