INIT Init
NEXT Next
CONSTANTS Half = 6
          MaxTr = 3
          WHalf = 10
          WMaxTr = 2
          MaxOff = 2
INVARIANT SpecSane
INVARIANT GapSane
CHECK_DEADLOCK FALSE
