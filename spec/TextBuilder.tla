----------------------------- MODULE TextBuilder -----------------------------
(***************************************************************************)
(* C37 - text patches map back to the right source positions               *)
(* (sandbox/grist/textbuilder.py: Text, Replacer, Combiner).               *)
(*                                                                         *)
(* Texts are sequences of code points.  Positions are 0-based, ranges are  *)
(* half-open [s, e) as in the Python code.  A builder is a tree of nodes   *)
(*   [k, text, val, kids, patches]                                         *)
(*   k = "T"  Text(text, value = val)          (val > 0, unique per tree)  *)
(*   k = "S"  a plain string part of a Combiner (no source)                *)
(*   k = "R"  Replacer(kids[1], patches)        patches = <<[s, e, n]>>    *)
(*   k = "C"  Combiner(kids)                                               *)
(*                                                                         *)
(* The specification defines the produced text Out(b) by applying the      *)
(* patches directly, and the provenance Prov(b) of every produced          *)
(* character: <<val, i>> = the i-th character (1-based) of the Text with   *)
(* value val, or NoSrc for characters that were inserted by a patch or     *)
(* come from a plain string.  Clauses(inp, out) is the admissible-output   *)
(* relation of the property for one builder and a set of output ranges.    *)
(***************************************************************************)
EXTENDS Naturals, Integers, Sequences, FiniteSets, TLC

NoSrc == <<0, 0>>
SeqRange(s) == {s[i] : i \in 1..Len(s)}

(* ---- applying a set of non-overlapping patches directly ---------------- *)
\* p is later than q in the text (ranges are distinct and do not overlap)
Later(p, q) == p.s > q.s \/ (p.s = q.s /\ p.e >= q.e)
ApplyOne(t, p) == SubSeq(t, 1, p.s) \o p.n \o SubSeq(t, p.e + 1, Len(t))
\* apply the last patch first: the positions of the earlier ones are unaffected
RECURSIVE ApplyPatches(_, _)
ApplyPatches(t, P) ==
  IF P = {} THEN t
  ELSE LET p == CHOOSE x \in P : \A q \in P : Later(x, q)
       IN ApplyPatches(ApplyOne(t, p), P \ {p})

\* the same patches acting on a provenance sequence: replacement characters have no source
Marks(n) == [i \in 1..n |-> NoSrc]
MarkPatches(P) == {[s |-> p.s, e |-> p.e, n |-> Marks(Len(p.n))] : p \in P}

NonOverlapping(P, m) ==
  \A p \in P :
    /\ 0 <= p.s /\ p.s <= p.e /\ p.e <= m
    /\ \A q \in P : p = q \/ ((p.e <= q.s \/ q.e <= p.s) /\ ~(p.s = q.s /\ p.e = q.e))

(* ---- builders ----------------------------------------------------------- *)
RECURSIVE Cat(_)
Cat(ss) == IF ss = <<>> THEN <<>> ELSE Head(ss) \o Cat(Tail(ss))

RECURSIVE Out(_)
Out(b) ==
  CASE b.k = "T" -> b.text
    [] b.k = "S" -> b.text
    [] b.k = "R" -> ApplyPatches(Out(b.kids[1]), SeqRange(b.patches))
    [] b.k = "C" -> Cat([i \in 1..Len(b.kids) |-> Out(b.kids[i])])

RECURSIVE Prov(_)
Prov(b) ==
  CASE b.k = "T" -> [i \in 1..Len(b.text) |-> <<b.val, i>>]
    [] b.k = "S" -> Marks(Len(b.text))
    [] b.k = "R" -> ApplyPatches(Prov(b.kids[1]), MarkPatches(SeqRange(b.patches)))
    [] b.k = "C" -> Cat([i \in 1..Len(b.kids) |-> Prov(b.kids[i])])

\* the Text nodes of a tree, left to right
RECURSIVE TextNodes(_)
TextNodes(b) ==
  CASE b.k = "T" -> <<b>>
    [] b.k = "S" -> <<>>
    [] OTHER     -> Cat([i \in 1..Len(b.kids) |-> TextNodes(b.kids[i])])

\* ts = TextNodes(b); the text of the Text whose value is v
SrcText(ts, v) == ts[CHOOSE i \in 1..Len(ts) : ts[i].val = v].text

RECURSIVE Shaped(_)
Shaped(b) ==
  CASE b.k = "T" -> b.val > 0 /\ b.kids = <<>> /\ b.patches = <<>>
    [] b.k = "S" -> b.val = 0 /\ b.kids = <<>> /\ b.patches = <<>>
    [] b.k = "R" -> /\ Len(b.kids) = 1 /\ b.kids[1].k # "S" /\ Shaped(b.kids[1])
                    /\ Cardinality(SeqRange(b.patches)) = Len(b.patches)
                    /\ NonOverlapping(SeqRange(b.patches), Len(Out(b.kids[1])))
    [] b.k = "C" -> \A i \in 1..Len(b.kids) : Shaped(b.kids[i])
    [] OTHER     -> FALSE

WellFormed(b) ==
  /\ Shaped(b) /\ b.k # "S"
  /\ LET ts == TextNodes(b) IN \A i, j \in 1..Len(ts) : ts[i].val = ts[j].val => i = j

(* ---- output ranges the property speaks about ------------------------------ *)
\* non-empty [s, e) whose first and last characters are copied characters of some input Text
Qualifies(pv, s, e) == 0 <= s /\ s < e /\ e <= Len(pv) /\ pv[s + 1][1] # 0 /\ pv[e][1] # 0
OneInput(pv, s, e)  == Qualifies(pv, s, e) /\ pv[s + 1][1] = pv[e][1]
SpansInputs(pv, s, e) == Qualifies(pv, s, e) /\ pv[s + 1][1] # pv[e][1]
QualRanges(b) ==
  LET pv == Prov(b) IN {r \in (0..Len(pv)) \X (0..Len(pv)) : Qualifies(pv, r[1], r[2])}

\* what mapping back [s, e) -> `sent` must yield when the range lies in one input
Expected(ts, pv, s, e, sent) ==
  LET v   == pv[s + 1][1]
      src == SrcText(ts, v)
      ps  == pv[s + 1][2] - 1
      pe  == pv[e][2]
  IN [kind |-> "patch", val |-> v, src |-> src, ps |-> ps, pe |-> pe,
      old |-> SubSeq(src, ps + 1, pe), new |-> sent]

Refusals == {"none", "ValueError"}

\* m = one recorded call [s, e, sent, kind, val, src, ps, pe, old, new]
MapOk(ts, pv, m) ==
  IF OneInput(pv, m.s, m.e)
  THEN LET x == Expected(ts, pv, m.s, m.e, m.sent)
       IN /\ m.kind = x.kind /\ m.val = x.val /\ m.src = x.src
          /\ m.ps = x.ps /\ m.pe = x.pe /\ m.old = x.old /\ m.new = x.new
  ELSE m.kind \in Refusals

Tag(name, r) == name \o "@" \o ToString(r[1]) \o "-" \o ToString(r[2])

(* inp = [b, ranges : <<<<s, e>>, ...>>, all : 0 | 1];  out = [text, maps : <<m, ...>>]          *)
(* all = 1: every qualifying range of the produced text is judged (and must have been recorded);  *)
(* all = 0: the qualifying ones among inp.ranges.                                                 *)
Clauses(inp, out) ==
  LET b  == inp.b
      o  == Out(b)
      pv == Prov(b)
      ts == TextNodes(b)
      wanted == IF inp.all = 1 THEN {} ELSE SeqRange(inp.ranges)
      Judged(s, e) == Qualifies(pv, s, e) /\ (inp.all = 1 \/ <<s, e>> \in wanted)
      recs == {k \in 1..Len(out.maps) : Judged(out.maps[k].s, out.maps[k].e)}
      seen == {<<out.maps[k].s, out.maps[k].e>> : k \in recs}
      missing == IF inp.all = 1 THEN {r \in (0..Len(pv)) \X (0..Len(pv)) : Qualifies(pv, r[1], r[2])} \ seen
                 ELSE {r \in wanted : Qualifies(pv, r[1], r[2])} \ seen
      One(m) ==
        IF MapOk(ts, pv, m) THEN {}
        ELSE {Tag(IF OneInput(pv, m.s, m.e) THEN "C37.mapback" ELSE "C37.span", <<m.s, m.e>>)}
  IN (IF out.text = o THEN {} ELSE {"C37.text"})
     \cup UNION {One(out.maps[k]) : k \in recs}
     \cup {Tag("C37.missing", r) : r \in missing}

Ok(inp, out) == Clauses(inp, out) = {}

(* Reference solution: the produced text and, for every qualifying range, the expected mapping    *)
(* (or a refusal).  Shows that the relation is satisfiable on every input of the bounded model.   *)
RefSent == <<90>>
RefMap(ts, pv, r) ==
  IF OneInput(pv, r[1], r[2])
  THEN LET x == Expected(ts, pv, r[1], r[2], RefSent)
       IN [s |-> r[1], e |-> r[2], sent |-> RefSent, kind |-> x.kind, val |-> x.val, src |-> x.src,
           ps |-> x.ps, pe |-> x.pe, old |-> x.old, new |-> x.new]
  ELSE [s |-> r[1], e |-> r[2], sent |-> RefSent, kind |-> "ValueError", val |-> 0, src |-> <<>>,
        ps |-> 0, pe |-> 0, old |-> <<>>, new |-> <<>>]
RECURSIVE SetAsSeq(_)
SetAsSeq(S) == IF S = {} THEN <<>> ELSE LET x == CHOOSE y \in S : TRUE IN <<x>> \o SetAsSeq(S \ {x})
Ref(inp) ==
  LET pv == Prov(inp.b)
      ts == TextNodes(inp.b)
      rs == SetAsSeq(QualRanges(inp.b))
  IN [text |-> Out(inp.b), maps |-> [k \in 1..Len(rs) |-> RefMap(ts, pv, rs[k])]]

=============================================================================
