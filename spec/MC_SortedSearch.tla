--------------------------- MODULE MC_SortedSearch ---------------------------
(* Bounded design model of C14.  Two states per input (chosen; judged, so that all TLC workers   *)
(* evaluate the invariant).  An input is a small history of table T:                              *)
(*   [rows  |-> <<[g, s]>>        the initial rows (row ids 1..n),                                 *)
(*    msv   |-> "asc" | "rev"     manualSort ascending or descending in the row id,                *)
(*    steps |-> <<[op, id, g, s]>>  edits: set_s / set_g of row id, rm of row id, add of a row,    *)
(*    u     |-> index of the probe universe in Universes (probes = {0,1} x that universe),         *)
(*    set   |-> "std" | "id"      which observers watch the table]                                 *)
(* Families (Fams, a sequence) are fully enumerated sub-spaces, see QuickFams / ThoroughFams.        *)
(* SpecSane: on every table state of every history and for every probe, the linear-scan           *)
(* definitions (the relation) accept the result of the bisection model of the code (Ref), and     *)
(* every ordered record set is sorted and holds exactly the rows of its group - the relation is   *)
(* satisfiable and the scans coincide with correct bisections; on tables of <= 2 rows also that   *)
(* the all-at-once tables used by the relation equal the one-at-a-time definitions FindLt .. Rank.*)
(* The input space, the universes and the observers are written to OUT_FILE.                      *)
EXTENDS SortedSearch, TLC, Json, IOUtils, SequencesExt, FiniteSetsExt
CONSTANTS Fams

A == St(<<97>>)
B == St(<<98>>)
U5 == <<No, I(0), I(1), I(2), A>>
U9 == <<No, I(0), I(1), I(2), A, Bo(TRUE), B, Fl(3), St(<<>>)>>
Universes == <<U5, U9>>

\* u: probe universe; cv: indices (into that universe) of the cell values; rmin..rmax rows;
\* gs: values of g; ms: manualSort variants; ns: number of edit steps; sv: cell values (indices) that
\* steps write; set: observer set
Fam(u, cv, rmin, rmax, gs, ms, ns, set) ==
  [u |-> u, cv |-> cv, rmin |-> rmin, rmax |-> rmax, gs |-> gs, ms |-> ms, ns |-> ns, set |-> set]

All5 == 1..5
Mix3 == {1, 3, 5}            \* None, 1, "a"
Two  == {3, 5}               \* 1, "a"

QuickFams == <<
  Fam(1, All5, 0, 2, {0, 1}, {"asc"}, 0, "std"),          \* every table of <= 2 rows
  Fam(1, Mix3, 3, 3, {0, 1}, {"asc"}, 0, "std"),          \* 3 rows, two groups, mixed classes
  Fam(1, All5, 3, 3, {0},    {"rev"}, 0, "std"),          \* 3 rows, one group, manualSort against id
  Fam(1, Mix3, 4, 4, {0},    {"rev"}, 0, "std"),          \* 4 rows
  Fam(2, 1..9, 1, 2, {0},    {"asc", "rev"}, 0, "std"),   \* bool = int ties, floats, str order
  Fam(1, Two,  1, 2, {0, 1}, {"asc"}, 1, "std"),          \* one edit
  Fam(1, Two,  1, 2, {0, 1}, {"asc"}, 0, "id") >>         \* order_by="id"
TinyFams == <<             \* for experiments only
  Fam(1, Mix3, 0, 2, {0, 1}, {"asc"}, 0, "std"),
  Fam(1, Two,  1, 1, {0, 1}, {"rev"}, 2, "std"),
  Fam(1, Two,  1, 1, {0},    {"asc"}, 0, "id") >>
ThoroughFams == <<
  Fam(1, All5, 0, 4, {0, 1}, {"asc"}, 0, "std"),          \* every table of <= 4 rows
  Fam(1, Mix3, 3, 3, {0, 1}, {"rev"}, 0, "std"),
  Fam(1, All5, 4, 4, {0},    {"rev"}, 0, "std"),
  Fam(2, 1..9, 1, 2, {0},    {"asc", "rev"}, 0, "std"),
  Fam(2, 1..9, 3, 3, {0},    {"rev"}, 0, "std"),
  Fam(2, {3, 6, 8, 5, 7}, 3, 3, {0, 1}, {"rev"}, 0, "std"),     \* 1, True, 1.5, "a", "b"
  Fam(1, Mix3, 1, 2, {0, 1}, {"asc"}, 1, "std"),          \* one edit
  Fam(1, Two,  3, 3, {0, 1}, {"rev"}, 1, "std"),
  Fam(1, Two,  1, 1, {0, 1}, {"asc"}, 2, "std"),          \* two edits
  Fam(1, Two,  2, 2, {0},    {"rev"}, 2, "std"),
  Fam(1, Mix3, 1, 2, {0, 1}, {"asc"}, 0, "id") >>

RowsOf(fm) ==
  UNION {[1..n -> {[g |-> g, s |-> Universes[fm.u][c]] : g \in fm.gs, c \in fm.cv}] : n \in fm.rmin..fm.rmax}

NoStep == <<>>
StepsOn(fm, n) ==          \* the step alphabet for tables whose row ids stay within 1..(n + 2)
  {[op |-> "set_s", id |-> i, g |-> 0, s |-> Universes[fm.u][c]] : i \in 1..n, c \in fm.cv} \cup
  {[op |-> "set_g", id |-> i, g |-> g, s |-> No] : i \in 1..n, g \in fm.gs} \cup
  {[op |-> "rm", id |-> i, g |-> 0, s |-> No] : i \in 1..n} \cup
  {[op |-> "add", id |-> 0, g |-> g, s |-> Universes[fm.u][c]] : g \in fm.gs, c \in fm.cv}

\* ---------------------------------------------------------------------------------------------
\* the table states of a history (the engine's own states are recorded; this is the design model)
Start(rows, msv) ==
  Fz([i \in 1..Len(rows) |->
     [id |-> i, ms |-> IF msv = "asc" THEN 2 * i ELSE 2 * (Len(rows) + 1 - i), g |-> rows[i].g, s |-> rows[i].s]])

MaxOf(S) == IF S = {} THEN 0 ELSE CHOOSE m \in S : \A x \in S : x <= m
HasId(t, id) == \E i \in 1..Len(t) : t[i].id = id

ApplyStep(t, st) ==
  CASE st.op = "set_s" -> Fz([i \in 1..Len(t) |-> IF t[i].id = st.id THEN [t[i] EXCEPT !.s = st.s] ELSE t[i]])
    [] st.op = "set_g" -> Fz([i \in 1..Len(t) |-> IF t[i].id = st.id THEN [t[i] EXCEPT !.g = st.g] ELSE t[i]])
    [] st.op = "rm"    -> SelectSeq(t, LAMBDA r : r.id # st.id)
    [] st.op = "add"   -> Append(t, [id |-> MaxOf({t[i].id : i \in 1..Len(t)}) + 1,
                                     ms |-> MaxOf({t[i].ms : i \in 1..Len(t)}) + 2, g |-> st.g, s |-> st.s])

RECURSIVE TableAt(_, _)
TableAt(in, k) == IF k = 0 THEN Start(in.rows, in.msv) ELSE ApplyStep(TableAt(in, k - 1), in.steps[k])

\* every step names a row that exists, and changes something
ValidHist(in) ==
  \A k \in 1..Len(in.steps) :
    LET t == TableAt(in, k - 1)
        st == in.steps[k]
    IN st.op = "add" \/ (HasId(t, st.id) /\ ApplyStep(t, st) # t)

Mk(rows, msv, steps, fm) == [rows |-> rows, msv |-> msv, steps |-> steps, u |-> fm.u, set |-> fm.set]

InputsOf(fm) ==
  IF fm.ns = 0 THEN {Mk(r, m, NoStep, fm) : r \in RowsOf(fm), m \in fm.ms}
  ELSE IF fm.ns = 1
  THEN {in \in {Mk(r, m, <<a>>, fm) : r \in RowsOf(fm), m \in fm.ms, a \in StepsOn(fm, fm.rmax)} : ValidHist(in)}
  ELSE {in \in {Mk(r, m, <<a, b>>, fm) : r \in RowsOf(fm), m \in fm.ms,
                                         a \in StepsOn(fm, fm.rmax), b \in StepsOn(fm, fm.rmax + 1)} : ValidHist(in)}

Probes(u) == LET U == Universes[u]
             IN Fz([j \in 1..(2 * Len(U)) |-> [g0 |-> (j - 1) \div Len(U), q |-> U[((j - 1) % Len(U)) + 1]]])

RECURSIVE AllInputsFrom(_)
AllInputsFrom(k) == IF k > Len(Fams) THEN <<>> ELSE SetToSeq(InputsOf(Fams[k])) \o AllInputsFrom(k + 1)

\* ---------------------------------------------------------------------------------------------
\* The sort-key pre-order on the whole universe is a total pre-order (so "the ordered record set"
\* and the scans are well defined), and has the documented shape.
V == {U9[j] : j \in 1..Len(U9)} \cup {I(-1), Fl(1), Bo(FALSE), St(<<97, 97>>), St(<<66>>)}
ASSUME \A a, b \in V : Cmp(a, b) = 0 - Cmp(b, a)
ASSUME \A a, b, c \in V : Cmp(a, b) <= 0 /\ Cmp(b, c) <= 0 => Cmp(a, c) <= 0
ASSUME \A a \in V \ {No} : Cmp(No, a) = -1                               \* None before everything
ASSUME \A a, b \in V : IsNum(a) /\ b.k = "s" => Cmp(a, b) = -1            \* numbers before text
ASSUME Cmp(I(1), Bo(TRUE)) = 0 /\ Cmp(I(0), Bo(FALSE)) = 0 /\ Cmp(Fl(2), I(1)) = 0
ASSUME Cmp(I(1), Fl(3)) = -1 /\ Cmp(Fl(3), I(2)) = -1 /\ Cmp(I(-1), I(0)) = -1
ASSUME Cmp(St(<<>>), A) = -1 /\ Cmp(A, St(<<97, 97>>)) = -1 /\ Cmp(St(<<97, 97>>), B) = -1 /\ Cmp(St(<<66>>), A) = -1
\* make_sort_spec
ASSUME SortSpec("order_by", <<Asc("s")>>) = <<Asc("s"), ManualSort>>
ASSUME SortSpec("order_by", <<>>) = <<ManualSort>>
ASSUME SortSpec("order_by", <<Dsc("s"), Asc("id")>>) = <<Dsc("s")>>
ASSUME SortSpec("order_by", <<Asc("id")>>) = <<>>
ASSUME SortSpec("sort_by", <<Dsc("s")>>) = <<Dsc("s")>>

ASSUME "OUT_FILE" \in DOMAIN IOEnv
       => JsonSerialize(IOEnv.OUT_FILE,
            [U |-> Universes, F |-> [std |-> FindObs("std"), id |-> FindObs("id")],
             P |-> [std |-> PosObs("std"), id |-> PosObs("id")], inputs |-> AllInputsFrom(1)])

VARIABLES input, done
Init == done = FALSE /\ \E k \in 1..Len(Fams) : input \in InputsOf(Fams[k])
Next == ~done /\ done' = TRUE /\ UNCHANGED input      \* the invariant is evaluated by all workers

AllSorted(set, t, pr) ==
  /\ \A fi \in 1..Len(FindObs(set)) : \A g \in G0s(pr) :
       LET fo == FindObs(set)[fi]
           ord == Ordered(t, fo.grp, g, FSpec(fo))
       IN SortedBy(ord, FSpec(fo)) /\ Ids(ord) = GroupIds(t, fo.grp, g) /\ Len(ord) = Cardinality(Ids(ord))
  /\ \A pi \in 1..Len(PosObs(set)) : \A g \in Gs(t) :
       LET po == PosObs(set)[pi]
           ord == Ordered(t, po.gb, g, PSpec(po))
       IN SortedBy(ord, PSpec(po)) /\ Ids(ord) = GroupIds(t, po.gb, g) /\ Len(ord) = Cardinality(Ids(ord))

\* the one-at-a-time definitions and the tables coincide
OneByOne(set, t, pr) ==
  /\ \A fi \in 1..Len(FindObs(set)) :
       LET fo == FindObs(set)[fi]
           table == WantFindTable(t, fo, pr)
       IN \A j \in 1..Len(pr) :
            LET ord == Ordered(t, fo.grp, pr[j].g0, FSpec(fo))
                pv == ProbeVals(fo, pr[j])
            IN /\ table[j] = WantFind(t, fo, pr[j])
               /\ table[j] = <<FindLt(ord, pv, FSpec(fo)), FindLe(ord, pv, FSpec(fo)), FindGt(ord, pv, FSpec(fo)),
                               FindGe(ord, pv, FSpec(fo)), FindEq(ord, pv, FSpec(fo))>>
  /\ \A pi \in 1..Len(PosObs(set)) :
       LET table == WantPosTable(t, PosObs(set)[pi])
       IN \A i \in 1..Len(t) : table[i] = WantPos(t, PosObs(set)[pi], t[i])

SpecSane ==
  done =>
  \A k \in 0..Len(input.steps) :
    LET t == TableAt(input, k)
        pr == Probes(input.u)
    IN Ok(input.set, Ref(input.set, t, pr)) /\ AllSorted(input.set, t, pr) /\ (Len(t) > 2 \/ OneByOne(input.set, t, pr))
=============================================================================
