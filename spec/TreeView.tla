------------------------------ MODULE TreeView ------------------------------
(***************************************************************************)
(* C36 - page-tree indentation fixes (sandbox/grist/treeview.py).          *)
(*                                                                         *)
(* An input is [ind : sequence of indentations, del : set of positions     *)
(* being removed].  An output is a sequence of <<position, newIndent>>.    *)
(* Ok(in, out) is the admissible-output RELATION: it is what the property  *)
(* states, plus the module's documented intent for children of a removed   *)
(* page (they move up: a removed predecessor allows its own fixed level,   *)
(* not one more).                                                          *)
(***************************************************************************)
EXTENDS Naturals, Integers, Sequences, FiniteSets

Min(a, b) == IF a <= b THEN a ELSE b

\* Value of page i after applying the fixes (last fix wins; none = unchanged)
NewOf(in, out, i) ==
  IF \E k \in 1..Len(out) : out[k][1] = i
  THEN out[CHOOSE k \in 1..Len(out) : out[k][1] = i /\ \A m \in (k+1)..Len(out) : out[m][1] # i][2]
  ELSE in.ind[i]

\* lvl[i]: the level page i ends at; for a removed page, the level it would have been fixed to.
RECURSIVE Lvl(_, _, _)
Allow(in, out, i) ==
  IF i = 1 THEN 0
  ELSE IF (i - 1) \in in.del THEN Lvl(in, out, i - 1) ELSE Lvl(in, out, i - 1) + 1
Lvl(in, out, i) ==
  IF i \in in.del THEN Min(Allow(in, out, i), in.ind[i]) ELSE NewOf(in, out, i)

Remaining(in) == {i \in 1..Len(in.ind) : i \notin in.del}

\* (1) what the property says about the result: a valid tree over the remaining pages
ValidTree(in, out) ==
  \A i \in Remaining(in) :
    LET prevs == {j \in Remaining(in) : j < i}
    IN IF prevs = {} THEN NewOf(in, out, i) = 0
       ELSE LET p == CHOOSE j \in prevs : \A q \in prevs : q <= j
            IN NewOf(in, out, i) <= NewOf(in, out, p) + 1

\* (2) never deeper than before, never negative
NeverDeeper(in, out) ==
  \A i \in Remaining(in) : NewOf(in, out, i) <= in.ind[i] /\ NewOf(in, out, i) >= 0

\* (3) changes only pages that exceed what their predecessor allows
OnlyViolators(in, out) ==
  \A i \in Remaining(in) :
    /\ in.ind[i] <= Allow(in, out, i) => NewOf(in, out, i) = in.ind[i]
    /\ in.ind[i] >  Allow(in, out, i) => NewOf(in, out, i) <= Allow(in, out, i)

\* (4) fixes mention remaining pages only
WellTargeted(in, out) ==
  \A k \in 1..Len(out) : out[k][1] \in Remaining(in)

Clauses(in, out) ==
  (IF ValidTree(in, out) THEN {} ELSE {"C36.valid"}) \cup
  (IF NeverDeeper(in, out) THEN {} ELSE {"C36.deeper"}) \cup
  (IF OnlyViolators(in, out) THEN {} ELSE {"C36.only"}) \cup
  (IF WellTargeted(in, out) THEN {} ELSE {"C36.target"})

Ok(in, out) == Clauses(in, out) = {}

\* Reference solution (the minimal change): used only to show that Ok is satisfiable for every
\* input of the bounded model (the specification is not vacuous) and that Ok implies ValidTree.
RECURSIVE RefFrom(_, _, _, _)
RefFrom(in, i, allow, acc) ==
  IF i > Len(in.ind) THEN acc
  ELSE LET v == Min(allow, in.ind[i])
       IN IF i \in in.del THEN RefFrom(in, i + 1, v, acc)
          ELSE RefFrom(in, i + 1, v + 1, IF v # in.ind[i] THEN Append(acc, <<i, v>>) ELSE acc)
Ref(in) == RefFrom(in, 1, 0, <<>>)

=============================================================================
