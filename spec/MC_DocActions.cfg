INIT Init
NEXT Next
INVARIANT InverseLemma
INVARIANT ShapeLemma
INVARIANT UndoWellFormed
INVARIANT ComposeLemma
CHECK_DEADLOCK FALSE
