INIT Init
NEXT Next
CONSTANTS MaxNodes = 5
          MaxNodesOpt = 4
          MaxDepth = 3
          Shards = 16
INVARIANT SpecSane
CHECK_DEADLOCK FALSE
