SPECIFICATION Spec
VIEW View
CHECK_DEADLOCK FALSE
CONSTANTS
  PIds = {1, 2}
  OIds = {1, 2, 3}
  Names = {"x", "y"}
  Kinds = {"a", "b"}
  Amts = {1, 2}
