----------------------------- MODULE MC_Predicate -----------------------------
(* Bounded design model for C40: every abstract expression of at most MaxWide nodes over the wide   *)
(* leaf set, every expression of at most MaxNarrow nodes over the narrow leaf set, and every         *)
(* out-of-subset construct in a few contexts.  One state per expression.  The                      *)
(* enumerated inputs and the environments are written to OUT_FILE; harness/fn_predicate.py renders   *)
(* them as Python text and runs the real parse_predicate_formula on them.                            *)
(* A node = one operator / call / list display / leaf; an attribute access costs nothing.            *)
EXTENDS Predicate, TLC, Json, IOUtils, SequencesExt, FiniteSetsExt
CONSTANTS MaxWide, MaxNarrow, Lanes

C(v) == <<"Const", v>>
RecX == <<"Attr", <<"Name", "rec">>, "x">>
UserA == <<"Attr", <<"Name", "user">>, "a">>
F == <<"Name", "f">>

\* All families are SEQUENCES (built without duplicates), not sets: TLC builds them ~10x faster.
WideLeaves == <<C(VInt(0)), C(VInt(1)), C(VInt(2)), C(VBool(TRUE)), C(VNone), C(StrA), C(VStr(<<>>)),
                RecX, UserA, <<"Name", "zz">>, <<"List">>>>
NarrowLeaves == <<C(VInt(1)), C(StrA), C(VNone), RecX, <<"List">>>>

Envs == StdEnvs

Kw(t) == <<"keywords", <<"k", t>>>>
Map1(S, G(_)) == [j \in 1..Len(S) |-> G(S[j])]
Map2(A, B, G(_, _)) ==
  [j \in 1..(Len(A) * Len(B)) |-> G(A[((j - 1) \div Len(B)) + 1], B[((j - 1) % Len(B)) + 1])]
Map3(A, B, D, G(_, _, _)) ==
  [j \in 1..(Len(A) * Len(B) * Len(D)) |->
     G(A[((j - 1) \div (Len(B) * Len(D))) + 1], B[(((j - 1) \div Len(D)) % Len(B)) + 1], D[((j - 1) % Len(D)) + 1])]
RECURSIVE Flat(_)
Flat(ss) == IF Len(ss) = 0 THEN <<>> ELSE ss[1] \o Flat(Tail(ss))

BinSeq == <<"Add", "Sub", "Mult", "Div", "Mod", "Eq", "NotEq", "Lt", "LtE", "Gt", "GtE", "Is", "IsNot",
            "In", "NotIn", "And", "Or", "List">>
ASSUME {BinSeq[j] : j \in 1..Len(BinSeq)} = BinOps \cup {"And", "Or", "List"}
TerSeq == <<"And", "Or", "List">>

Un(S) == LET not(t) == <<"Not", t>>        lst(t) == <<"List", t>>
             call(t) == <<"Call", F, t>>   callk(t) == <<"Call", F, Kw(t)>>
             up(t) == <<"Call", <<"Attr", t, "upper">>>>  lo(t) == <<"Call", <<"Attr", t, "lower">>>>
         IN Map1(S, not) \o Map1(S, lst) \o Map1(S, call) \o Map1(S, callk) \o Map1(S, up) \o Map1(S, lo)
Bi(A, B) == LET call(a, b) == <<"Call", F, a, b>>   callk(a, b) == <<"Call", F, a, Kw(b)>>
                bin(op) == LET g(a, b) == <<op, a, b>> IN Map2(A, B, g)
            IN Flat(Map1(BinSeq, bin)) \o Map2(A, B, call) \o Map2(A, B, callk)
Te(A, B, D) == LET ter(op) == LET g(a, b, d) == <<op, a, b, d>> IN Map3(A, B, D, g)
               IN Flat(Map1(TerSeq, ter))

\* expressions by exact size over a leaf sequence
Size(n, L) ==
  LET s1 == L
      s2 == Un(s1)
      s3 == Un(s2) \o Bi(s1, s1)
      s4 == Un(s3) \o Bi(s1, s2) \o Bi(s2, s1) \o Te(s1, s1, s1)
      s5 == Un(s4) \o Bi(s1, s3) \o Bi(s3, s1) \o Bi(s2, s2)
            \o Te(s2, s1, s1) \o Te(s1, s2, s1) \o Te(s1, s1, s2)
  IN CASE n = 1 -> s1 [] n = 2 -> s2 [] n = 3 -> s3 [] n = 4 -> s4 [] n = 5 -> s5

\* constructs outside the subset (the names are Python's ast class names, or a fact the recorder adds)
UnsupKinds == <<"Pow", "FloorDiv", "BitOr", "BitAnd", "BitXor", "LShift", "RShift", "MatMult",
                "USub", "UAdd", "Invert", "Compare:chained", "Subscript", "Slice", "Lambda",
                "ListComp", "GeneratorExp", "SetComp", "DictComp", "Dict", "Set", "IfExp",
                "NamedExpr", "Starred", "keyword:**", "JoinedStr", "Await",
                "Constant:bytes", "Constant:complex", "Constant:ellipsis", "NotPython">>
ULeaves == <<C(VInt(1)), C(StrA), RecX>>
UBase == LET u(k, a, b) == <<"Unsup", k, a, b>> IN Map3(UnsupKinds, ULeaves, ULeaves, u)
UnsupTrees ==
  LET not(u) == <<"Not", u>>  lst(u) == <<"List", u>>  call(u) == <<"Call", F, u>>  attr(u) == <<"Attr", u, "x">>
      and(a, u) == <<"And", a, u>>  eq(a, u) == <<"Eq", u, a>>  add(a, u) == <<"Add", a, u>>
      in(a, u) == <<"In", a, <<"List", u>>>>
  IN UBase \o Map1(UBase, not) \o Map1(UBase, lst) \o Map1(UBase, call) \o Map1(UBase, attr)
     \o Map2(ULeaves, UBase, and) \o Map2(ULeaves, UBase, eq) \o Map2(ULeaves, UBase, add)
     \o Map2(ULeaves, UBase, in)

Styles == <<"full", "min", "cmt">>
\* every expression of <= MaxWide nodes over the wide leaves, and of MaxWide+1..MaxNarrow nodes over
\* the narrow leaves (the narrow leaves are wide leaves, so smaller narrow expressions are included)
WideExprs == Flat([n \in 1..MaxWide |-> Size(n, WideLeaves)])
NarrowExprs == Flat([n \in 1..(MaxNarrow - MaxWide) |-> Size(MaxWide + n, NarrowLeaves)])
ExprSeq == WideExprs \o NarrowExprs \o UnsupTrees
N == Len(ExprSeq)

\* the input space handed to the harness (which renders `wide` in every style, `narrow` in one style
\* each - taken in turn -, `unsup` once), and the environments
ASSUME /\ "OUT_FILE" \in DOMAIN IOEnv
       => JsonSerialize(IOEnv.OUT_FILE, [wide |-> WideExprs, narrow |-> NarrowExprs, unsup |-> UnsupTrees,
                                         styles |-> Styles, envs |-> Envs])

\* The reference "implementation": the tree IS the abstract expression (wrapped in Comment for the
\* style that adds one), Python's result IS the node semantics of the expression.
CommentText == <<110, 111, 116, 101>>
Ref(in) ==
  IF HasUnsup(in.expr)
  THEN [out |-> [tree |-> NoTree, json |-> FALSE, exc |-> "SyntaxError", shape |-> FALSE], py |-> <<>>]
  ELSE [out |-> [tree |-> IF in.style = "cmt" THEN <<"Comment", in.expr, CommentText>> ELSE in.expr,
                 json |-> TRUE, exc |-> "", shape |-> TRUE],
        py |-> [k \in 1..Len(Envs) |-> Eval(in.expr, Envs[k])]]
InpOf(in) == [expr |-> in.expr, kinds |-> SetToSeq(KindsOf(in.expr)), pyok |-> TRUE, envs |-> <<>>]

\* well-formed results: the semantics is total on the model and stays inside the value universe
RECURSIVE IsValue(_)
IsValue(v) ==
  CASE Tag(v) \in {"int", "float"} -> Pay(v) \in -Bound..Bound
    [] Tag(v) = "bool" -> Pay(v) \in BOOLEAN
    [] Tag(v) = "none" -> Pay(v) = 0
    [] Tag(v) = "str"  -> Len(Pay(v)) <= MaxSeq /\ \A i \in 1..Len(Pay(v)) : Pay(v)[i] \in 0..127
    [] Tag(v) = "list" -> Len(Pay(v)) <= MaxSeq /\ \A i \in 1..Len(Pay(v)) : IsValue(Pay(v)[i])
    [] Tag(v) = "obj"  -> \A a \in DOMAIN Pay(v) : IsValue(Pay(v)[a])
    [] Tag(v) = "fn"   -> Pay(v)[1] \in {"pack", "upper", "lower"}
    [] Tag(v) = "kw"   -> TRUE
    [] Tag(v) \in {"err", "undef"} -> Pay(v) = 0
    [] OTHER -> FALSE

\* One state per expression; Lanes chains of states so that TLC's workers share the evaluation.
VARIABLE i
Init == i \in 1..(IF N < Lanes THEN N ELSE Lanes)
Next == i + Lanes <= N /\ i' = i + Lanes
SpecSane ==
  LET e == ExprSeq[i]
      in == [expr |-> e, style |-> "cmt"]
      inp == InpOf(in)
      r == Ref(in)
  IN /\ Ok(inp, r.out, r.py, Envs)
     /\ HasUnsup(e) = ~InSubset(inp)
     /\ ~HasUnsup(e) => WF(e) /\ \A k \in 1..Len(Envs) : IsValue(r.py[k])
=============================================================================
