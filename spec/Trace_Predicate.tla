---------------------------- MODULE Trace_Predicate ----------------------------
(* Judges recorded runs of the real predicate_formula.parse_predicate_formula against Predicate.   *)
(* A case:                                                                                         *)
(*   inp = [expr   : the abstract expression the text was rendered from (documented tree shape),  *)
(*                   or <<"NoExpr">> for generated / mutated text,                                 *)
(*          text, pytext, style : what was parsed / what Python evaluated (atoms, not inspected),  *)
(*          hascmt, comment : whether a trailing comment was added, its text as code points,       *)
(*          kinds  : class names of Python's own ast of pytext (+ "Constant:<type>", ...),          *)
(*          pyok   : Python's own parser accepted pytext,                                          *)
(*          envs   : <<>> for the standard environments, else the environments used]               *)
(*   out = [tree : the returned tree re-encoded (Const payloads tagged, comment as code points)    *)
(*                 or <<"NoTree">>, json : json.dumps succeeded, exc : "" | exception class,        *)
(*          shape : the returned object could be re-encoded as a tree of nodes]                    *)
(*   py  = Python's own eval of pytext in every environment, as tagged values / <<"err", 0>>       *)
(* Verdict per case: failed clauses "C40.*" (the property), "SPEC.*" (the specification or the     *)
(* renderer disagrees with Python on the abstract expression: machinery), "NOTE.*" (facts).        *)
EXTENDS Predicate, TLC, Json, IOUtils
Cases == JsonDeserialize(IOEnv.TRACE_FILE)
N == Len(Cases)
VARIABLES i, bad

EnvsOf(c) == IF Len(c.inp.envs) = 0 THEN StdEnvs ELSE c.inp.envs
SeqRange(s) == {s[k] : k \in 1..Len(s)}

Judge(c) ==
  LET base == Clauses(c.inp, c.out, c.py, StdEnvs)
      hasexpr == c.inp.expr # NoExpr
      supported == hasexpr /\ ~HasUnsup(c.inp.expr)
      expected == IF c.inp.hascmt THEN <<"Comment", c.inp.expr, c.inp.comment>> ELSE c.inp.expr
      \* binding of the abstract expression to the text: Python's ast contains what was rendered
      kindsOk == ~hasexpr \/
                 IF supported
                 THEN /\ c.inp.pyok
                      /\ (KindsOf(c.inp.expr) \ {"List"}) \subseteq SeqRange(c.inp.kinds)
                      /\ "List" \in KindsOf(c.inp.expr) => SeqRange(c.inp.kinds) \cap {"List", "Tuple"} # {}
                 ELSE \A k \in UnsupIn(c.inp.expr) :
                        IF k = "NotPython" THEN ~c.inp.pyok ELSE c.inp.pyok /\ k \in SeqRange(c.inp.kinds)
      \* when the semantic clause fails: is it the tree, or the specification itself?
      specOk == ~("C40.sem" \in base /\ supported) \/ SemOk(c.inp.expr, EnvsOf(c), c.py)
      same == ~supported \/ c.out.exc # "" \/ ~c.out.shape \/ c.out.tree = expected
  IN (IF kindsOk THEN {} ELSE {"SPEC.kinds"})
     \cup (IF specOk THEN base ELSE (base \ {"C40.sem"}) \cup {"SPEC.sem"})
     \cup (IF same THEN {} ELSE {"NOTE.treediff"})

Init == i = 0 /\ bad = <<>> /\ (N > 0 \/ JsonSerialize(IOEnv.OUT_FILE, <<>>))
Next ==
  /\ i < N
  /\ i' = i + 1
  /\ bad' = LET j == Judge(Cases[i + 1])
            IN IF j = {} THEN bad ELSE Append(bad, [i |-> i + 1, c |-> j])
  /\ (i' < N \/ JsonSerialize(IOEnv.OUT_FILE, bad'))
Spec == Init /\ [][Next]_<<i, bad>>
View == i
=============================================================================
