----------------------------- MODULE MC_TreeView -----------------------------
(* Bounded design model: every indentation sequence of length <= MaxLen over 0..MaxInd, every   *)
(* removal subset.  One state per input.  The input space is also written out as JSON so that     *)
(* the harness can run the real treeview.fix_indents on exactly the inputs TLC enumerated.        *)
EXTENDS TreeView, TLC, Json, IOUtils, SequencesExt, FiniteSetsExt
CONSTANTS MaxLen, MaxInd

Seqs == UNION {[1..n -> 0..MaxInd] : n \in 0..MaxLen}
Inputs == {[ind |-> s, del |-> d] : s \in Seqs, d \in UNION {SUBSET (1..Len(q)) : q \in Seqs}}
Valid == {in \in Inputs : in.del \subseteq 1..Len(in.ind)}

ASSUME /\ "OUT_FILE" \in DOMAIN IOEnv
       => JsonSerialize(IOEnv.OUT_FILE,
            SetToSeq({[ind |-> in.ind, del |-> SetToSeq(in.del)] : in \in Valid}))

VARIABLE input
Init == input \in Valid
Next == UNCHANGED input
SpecSane == Ok(input, Ref(input))
=============================================================================
