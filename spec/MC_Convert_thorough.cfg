INIT Init
NEXT Next
CONSTANTS MaxLen = 2
INVARIANT SpecSane
