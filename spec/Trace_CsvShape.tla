---------------------------- MODULE Trace_CsvShape ----------------------------
(* Judges recorded calls of the real import_csv.parse_file against CsvShape!Clauses (as the        *)
(* sequence CsvShape!Failed).                                                                      *)
(* Cases: <<[inp |-> [src, segs, rows, delim, quote, headers], grid |-> [n, cols],                  *)
(*           out |-> [nt, names, lens, cols], exc |-> ""]>>                                          *)
(* For a shape input the grid the worker wrote must be the grid the shape denotes (GridOf);        *)
(* otherwise the case is marked "C32.binding" (a harness fault, not a verdict about the code).      *)
EXTENDS CsvShape, TLC, Json, IOUtils
Cases == JsonDeserialize(IOEnv.TRACE_FILE)
N == Len(Cases)
VARIABLES i, bad
NormGrid(g) == [n |-> g.n, cols |-> [c \in 1..Len(g.cols) |-> Norm(g.cols[c])]]
Judge(c) ==
  LET g == NormGrid(c.grid) IN
  IF c.inp.src = "shape" /\ GridOf(c.inp.segs, c.inp.headers) # g THEN <<"C32.binding">>
  ELSE IF c.exc # "" THEN <<"C32.raised">>
  ELSE Failed(g, c.inp.headers, c.out)
Init == i = 0 /\ bad = <<>> /\ (N > 0 \/ JsonSerialize(IOEnv.OUT_FILE, <<>>))
Next ==
  /\ i < N
  /\ i' = i + 1
  /\ bad' = LET j == Judge(Cases[i + 1])
            IN IF j = <<>> THEN bad ELSE Append(bad, [i |-> i + 1, c |-> j])
  /\ (i' < N \/ JsonSerialize(IOEnv.OUT_FILE, bad'))
Spec == Init /\ [][Next]_<<i, bad>>
View == i
=============================================================================
