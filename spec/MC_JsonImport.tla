---------------------------- MODULE MC_JsonImport ----------------------------
(* Bounded design model of C33: every JSON document of at most MaxNodes values (objects, arrays    *)
(* and scalars all count) and nesting depth <= MaxDepth over the keys {a, b} and the scalars        *)
(* {1, "x", true, null} without options, and every document of at most MaxNodesOpt values with      *)
(* each of the include / exclude option sets Opts[2..].  One state per input (plus Shards start     *)
(* states: TLC evaluates the invariant of a state in the worker that generates it, so the inputs    *)
(* are dealt to Shards start states to use all workers).                                             *)
(* SpecSane: the admissible-output relation accepts the reference solution Flatten on every input.  *)
(* The enumerated inputs are written to OUT_FILE for the harness.                                    *)
EXTENDS JsonImport, TLC, Json, IOUtils, SequencesExt, FiniteSetsExt
CONSTANTS MaxNodes, MaxNodesOpt, MaxDepth, Shards

Keys == {"a", "b"}
Scalars == {<<"num", 1>>, <<"str", "x">>, <<"bool", "true">>, Null}

\* TreesN(d, n): the values with exactly n nodes and depth <= d (a scalar has depth 0)
\* SeqsN(d, m):  the sequences of such values with m nodes in total
RECURSIVE TreesN(_, _), SeqsN(_, _)
TreesN(d, n) ==
  (IF n = 1 THEN Scalars ELSE {}) \cup
  (IF d = 0 THEN {}
   ELSE {<<"arr", s>> : s \in SeqsN(d - 1, n - 1)} \cup
        (IF n = 1 THEN {<<"obj", <<>>>>} ELSE {}) \cup
        {<<"obj", <<<<k, v>>>>>> : k \in Keys, v \in TreesN(d - 1, n - 1)} \cup
        UNION {{<<"obj", <<<<"a", va>>, <<"b", vb>>>>>> : va \in TreesN(d - 1, i), vb \in TreesN(d - 1, n - 1 - i)} :
               i \in 1..(n - 2)})
SeqsN(d, m) ==
  IF m = 0 THEN {<<>>}
  ELSE UNION {{<<v>> \o s : v \in TreesN(d, i), s \in SeqsN(d, m - i)} : i \in 1..m}

Opt(inc, exc) == [inc |-> inc, exc |-> exc]
Opts == << Opt(<<>>, <<>>),
           Opt(<<>>, << <<"T", "a">> >>),                         \* a sub-table / column and all below it
           Opt(<< <<"T", "a">> >>, <<>>),                         \* only that sub-tree (the main table goes)
           Opt(<<>>, << <<"T", "a", "b">> >>),                    \* a property of a sub-table
           Opt(<< <<"T", "a">> >>, << <<"T", "a", "a">> >>),      \* excludes inside includes
           Opt(<<>>, << <<"T", "b">>, <<"T", "a", "a">> >>),      \* several excludes
           Opt(<< <<"T", "a", "b">>, <<"T", "b">> >>, <<>>),      \* several includes
           Opt(<< <<"T", "">> >>, <<>>) >>                        \* "T_": everything below the main table

In(tr, o) == [name |-> "T", t |-> tr, inc |-> o.inc, exc |-> o.exc]
RECURSIVE Family(_)
Family(n) == IF n = 0 THEN <<>> ELSE Family(n - 1) \o SetToSeq(TreesN(MaxDepth, n))
Plain == Family(MaxNodes)
Small == Family(MaxNodesOpt)
RECURSIVE WithOpts(_)
WithOpts(k) == IF k > Len(Opts) THEN <<>>
               ELSE [j \in 1..Len(Small) |-> In(Small[j], Opts[k])] \o WithOpts(k + 1)
All == [j \in 1..Len(Plain) |-> In(Plain[j], Opts[1])] \o WithOpts(2)
N == Len(All)

ASSUME "OUT_FILE" \in DOMAIN IOEnv => JsonSerialize(IOEnv.OUT_FILE, All)

VARIABLES idx, input
Init == \E k \in 1..Shards : idx = -k /\ input = All[1]
Next == \/ /\ idx < 0
           /\ \E j \in {x \in 1..N : x % Shards = (-idx) % Shards} : idx' = j /\ input' = All[j]
        \/ /\ idx > 0
           /\ UNCHANGED <<idx, input>>
SpecSane == Ok(input, Flatten(input))
=============================================================================
