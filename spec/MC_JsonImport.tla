---------------------------- MODULE MC_JsonImport ----------------------------
(* Bounded design model of C33: every JSON document of at most MaxNodes values (objects, arrays    *)
(* and scalars all count) and nesting depth <= MaxDepth over the keys {a, b} and the scalars        *)
(* {1, "x", true, null} without options, and every document of at most MaxNodesOpt values with      *)
(* each of the include / exclude option sets Opts[2..].  One state per input (plus Shards start     *)
(* states: TLC evaluates the invariant of a state in the worker that generates it, so the inputs    *)
(* are dealt to Shards start states to use all workers).                                             *)
(* SpecSane: the admissible-output relation accepts the reference solution Flatten on every input.  *)
(* The enumerated inputs are written to OUT_FILE for the harness.                                    *)
EXTENDS JsonImport, TLC, Json, IOUtils, SequencesExt, FiniteSetsExt
CONSTANTS MaxNodes, MaxNodesOpt, MaxDepth, Shards

\* The documents are built as SEQUENCES without repetition (every document arises in exactly one
\* way), level by level, so that TLC never has to sort or compare large sets of trees:
\*   T[n]     the values of depth <= d with exactly n nodes (a scalar has depth 0)
\*   S[m + 1] the sequences of such values with m nodes in total
ScalarSeq == <<<<"num", 1>>, <<"str", "x">>, <<"bool", "true">>, Null>>
Prod(A, B, F(_, _)) ==
  [i \in 1..(Len(A) * Len(B)) |-> F(A[((i - 1) \div Len(B)) + 1], B[((i - 1) % Len(B)) + 1])]
Map(A, F(_)) == [i \in 1..Len(A) |-> F(A[i])]
RECURSIVE Cat(_)
Cat(ss) == IF Len(ss) = 0 THEN <<>> ELSE Head(ss) \o Cat(Tail(ss))

RECURSIVE SeqTable(_, _, _)
SeqTable(T, acc, m) ==
  IF m >= MaxNodes THEN acc
  ELSE SeqTable(T, Append(acc, Cat([i \in 1..m |-> Prod(T[i], acc[m - i + 1], LAMBDA v, s : <<v>> \o s)])), m + 1)

Level0 == [n \in 1..MaxNodes |-> IF n = 1 THEN ScalarSeq ELSE <<>>] \o <<>>
RECURSIVE LevelFrom(_, _, _)
LevelFrom(T, S, n) ==      \* T, S: tables of the level below; builds the entries n..MaxNodes
  IF n > MaxNodes THEN <<>>
  ELSE << (IF n = 1 THEN ScalarSeq \o << <<"obj", <<>>>> >> ELSE <<>>)
          \o Map(S[n], LAMBDA s : <<"arr", s>>)
          \o (IF n = 1 THEN <<>>
              ELSE Map(T[n - 1], LAMBDA v : <<"obj", << <<"a", v>> >> >>) \o
                   Map(T[n - 1], LAMBDA v : <<"obj", << <<"b", v>> >> >>) \o
                   Cat([i \in 1..(n - 2) |->
                          Prod(T[i], T[n - 1 - i], LAMBDA va, vb : <<"obj", << <<"a", va>>, <<"b", vb>> >> >>)])) >>
       \o LevelFrom(T, S, n + 1)
RECURSIVE Level(_)
Level(d) == IF d = 0 THEN Level0
            ELSE LET T == Level(d - 1) IN LevelFrom(T, SeqTable(T, << << <<>> >> >>, 1), 1)
Trees == Level(MaxDepth)
Keys == {"a", "b"}
Scalars == SeqRange(ScalarSeq)

Opt(inc, exc) == [inc |-> inc, exc |-> exc]
Opts == << Opt(<<>>, <<>>),
           Opt(<<>>, << <<"T", "a">> >>),                         \* a sub-table / column and all below it
           Opt(<< <<"T", "a">> >>, <<>>),                         \* only that sub-tree (the main table goes)
           Opt(<<>>, << <<"T", "a", "b">> >>),                    \* a property of a sub-table
           Opt(<< <<"T", "a">> >>, << <<"T", "a", "a">> >>),      \* excludes inside includes
           Opt(<<>>, << <<"T", "b">>, <<"T", "a", "a">> >>),      \* several excludes
           Opt(<< <<"T", "a", "b">>, <<"T", "b">> >>, <<>>),      \* several includes
           Opt(<< <<"T", "">> >>, <<>>) >>                        \* "T_": everything below the main table

In(tr, o) == [name |-> "T", t |-> tr, inc |-> o.inc, exc |-> o.exc]
RECURSIVE Family(_)
Family(n) == IF n = 0 THEN <<>> ELSE Family(n - 1) \o Trees[n]
Plain == Family(MaxNodes)
Small == Family(MaxNodesOpt)
RECURSIVE WithOpts(_)
WithOpts(k) == IF k > Len(Opts) THEN <<>>
               ELSE [j \in 1..Len(Small) |-> In(Small[j], Opts[k])] \o WithOpts(k + 1)
\* two records whose key "a" holds values of any two shapes (an object in one record and an array in the
\* other feed the same sub-table "T_a": once with a parent row, once without)
Mixed == LET F2 == Family(2)
         IN Prod(F2, F2, LAMBDA v1, v2 : <<"arr", << <<"obj", << <<"a", v1>> >> >>, <<"obj", << <<"a", v2>> >> >> >> >>)
All == [j \in 1..Len(Plain) |-> In(Plain[j], Opts[1])] \o WithOpts(2)
       \o [j \in 1..Len(Mixed) |-> In(Mixed[j], Opts[1])]
N == Len(All)

ASSUME "OUT_FILE" \in DOMAIN IOEnv => JsonSerialize(IOEnv.OUT_FILE, All)

VARIABLES idx, input
Init == \E k \in 1..Shards : idx = -k /\ input = All[1]
Next == \/ /\ idx < 0
           /\ \E j \in {x \in 1..N : x % Shards = (-idx) % Shards} : idx' = j /\ input' = All[j]
        \/ /\ idx > 0
           /\ UNCHANGED <<idx, input>>
SpecSane == Ok(input, Flatten(input))
=============================================================================
