------------------------------ MODULE MC_RowIds ------------------------------
(* Bounded design model of RowIds: the state machine driven through every history of the bound. *)
(*                                                                                                *)
(*   one-step histories:  rows \subseteq Base1, one Add of any kind with any request of length    *)
(*                        <= MaxLen1 over None and Ids1 (AddRecord: exactly one requested id);    *)
(*                        requests naming the id 1,000,000 only from the tables in BigBases       *)
(*                        (the real engine then grows every column to 10^6 cells: ~1 s a case);   *)
(*   two-step histories:  rows \subseteq Base2, an Add with a request of length <= MaxLenA        *)
(*                        followed by an Add of length <= MaxLenB on the resulting table, over    *)
(*                        None and Ids2.                                                          *)
(*                                                                                                *)
(* Each step takes the outcome of the reference allocation; SpecSane says it is admissible (the   *)
(* relation is satisfiable on every input, and AllocIds agrees with it).  DefectClasses relates   *)
(* the relation to a model of the allocation in the unchanged tree (Naive): that allocation is    *)
(* inadmissible exactly for an explicit 0, an explicit id repeated in the request, and an         *)
(* automatic id meeting a later explicit id.                                                      *)
(* The histories are also written out as JSON so that the harness runs the real engine on them.   *)
EXTENDS RowIds, TLC, Json, IOUtils, SequencesExt, FiniteSetsExt
CONSTANTS Base1, Ids1, MaxLen1, BigBases, Base2, Ids2, MaxLenA, MaxLenB

\* id sets for the .cfg files (negative numbers cannot be written there)
IdsStd      == {-1, -2, 0, 1, 2, 4, 6, MaxRowId, MaxRowId + 1}
Ids2Quick   == {-1, 0, 1, 2, 3, 6}
Ids2Thorough == {-1, 0, 1, 2, 3, 4, 6}

Toks(ids) == {None} \cup {Id(n) : n \in ids}
SeqsOver(T, n) == UNION {[1..m -> T] : m \in 0..n}
Steps(T, n) ==
  {[kind |-> k, req |-> r] : k \in {"BulkAddRecord", "ReplaceTableData"}, r \in SeqsOver(T, n)} \cup
  {[kind |-> "AddRecord", req |-> <<t>>] : t \in T}

HasBig(s) == \E i \in 1..Len(s.req) : s.req[i] = Id(MaxRowId)

Hist1 == {h \in {[rows |-> e, steps |-> <<s>>] : e \in SUBSET Base1, s \in Steps(Toks(Ids1), MaxLen1)} :
            HasBig(h.steps[1]) => h.rows \in BigBases}
Hist2 == IF MaxLenA = 0 THEN {}
         ELSE {[rows |-> e, steps |-> <<a, b>>] :
                 e \in SUBSET Base2, a \in Steps(Toks(Ids2), MaxLenA), b \in Steps(Toks(Ids2), MaxLenB)}
Histories == Hist1 \cup Hist2

ASSUME /\ "OUT_FILE" \in DOMAIN IOEnv
       => JsonSerialize(IOEnv.OUT_FILE,
            SetToSeq({[rows |-> SetToSeq(h.rows), gone |-> <<>>, steps |-> h.steps] : h \in Histories}))

(* ---- a model of doBulkAddOrReplace + docactions in the unchanged tree ------------------------ *)
Naive(rows, kind, req) ==
  LET base == Base(rows, kind)
      ids  == RefIds(base, req)
      n    == Len(req)
      pos  == {i \in 1..n : ids[i] > 0}
      \* the last record written to a row id is the one the row holds
      held == [i \in 1..n |-> IF i \in pos /\ \A j \in (i + 1)..n : ids[j] # ids[i] THEN ids[i] ELSE -1]
      new  == {ids[i] : i \in pos}
  IN IF BadHigh(req) \/ Range(ids) \cap base # {}        \* "Row ID too high" / existence assertion
     THEN [rej |-> TRUE, same |-> TRUE, hasids |-> FALSE, ids |-> <<>>, after |-> rows,
           view |-> rows, held |-> [i \in 1..n |-> -1]]
     ELSE [rej |-> FALSE, same |-> FALSE, hasids |-> (kind # "ReplaceTableData"),
           ids |-> IF kind = "ReplaceTableData" THEN <<>> ELSE ids,
           after |-> base \cup new, view |-> base \cup new, held |-> held]

VARIABLES input, k, rows, last
vars == <<input, k, rows, last>>

Init == input \in Histories /\ k = 0 /\ rows = input.rows /\ last = <<>>
Next ==
  /\ k < Len(input.steps)
  /\ LET st == input.steps[k + 1]
         o  == RefOutcome(rows, st.kind, st.req)
     IN /\ rows' = o.after
        /\ last' = <<[before |-> rows, kind |-> st.kind, req |-> st.req, o |-> o]>>
  /\ k' = k + 1
  /\ UNCHANGED input
Spec == Init /\ [][Next]_vars

SpecSane ==
  last = <<>> \/ LET l == last[1] IN Step(l.before, l.kind, l.req, l.o, rows)

DefectClasses ==
  last = <<>> \/
  LET l    == last[1]
      base == Base(l.before, l.kind)
  IN Ok(l.before, l.kind, l.req, Naive(l.before, l.kind, l.req))
       <=> ~(BadZero(l.req) \/ BadRepeat(l.req) \/ RefClash(base, l.req))
           \/ BadHigh(l.req) \/ BadExists(base, l.req)
=============================================================================
