-------------------------------- MODULE Meta --------------------------------
(***************************************************************************)
(* The metadata layer as predicates over OBSERVED documents                *)
(*   [tableId -> [rows : ascending seq of ids, cols : [colId -> seq], base]]*)
(***************************************************************************)
EXTENDS TraceIO, FiniteSets

MetaTables == {"_grist_DocInfo", "_grist_Tables", "_grist_Tables_column", "_grist_Imports",
  "_grist_External_database", "_grist_External_table", "_grist_TableViews", "_grist_TabItems",
  "_grist_TabBar", "_grist_Pages", "_grist_Views", "_grist_Views_section", "_grist_Views_section_field",
  "_grist_Validations", "_grist_REPL_Hist", "_grist_Attachments", "_grist_Triggers", "_grist_ACLRules",
  "_grist_ACLResources", "_grist_ACLPrincipals", "_grist_ACLMemberships", "_grist_Filters",
  "_grist_Cells", "_grist_Shares"}

MT == "_grist_Tables"
MC == "_grist_Tables_column"

Truthy(tok) == tok \notin {"b0", "n", "#0", "s"}

HasCol(o, t, c) == t \in DOMAIN o /\ c \in DOMAIN o[t].cols
NRows(o, t) == Len(o[t].rows)
RowSet(o, t) == {o[t].rows[i] : i \in 1..Len(o[t].rows)}

(***************************************************************************)
(* C08: schema.build_schema transcribed.  The logged engine.schema is      *)
(*   [tableIdToken -> [colIdToken -> [type, isf, formula, rev]]]           *)
(* restricted to the tables that do not belong to the built-in metadata.   *)
(***************************************************************************)
ExpectedSchema(o) ==
  LET T == o[MT]
      C == o[MC]
      TI == 1..Len(T.rows)
      CI == 1..Len(C.rows)
      ColIdOfRef(ref) ==
        IF \E j \in CI : C.rows[j] = ref
        THEN C.cols.colId[CHOOSE j \in CI : C.rows[j] = ref] ELSE "n"
      Rev(j) == IF "reverseCol" \in DOMAIN C.cols THEN ColIdOfRef(IntOf(C.cols.reverseCol[j])) ELSE "n"
      ColsOf(tref) == {j \in CI : IntOf(C.cols.parentId[j]) = tref}
      \* a later record with the same id overrides an earlier one (dict semantics)
      LastT(tok) == CHOOSE i \in TI : T.cols.tableId[i] = tok /\ \A k \in TI : k > i => T.cols.tableId[k] # tok
      ColRec(tref, ctok) ==
        LET js == {j \in ColsOf(tref) : C.cols.colId[j] = ctok}
            j  == CHOOSE j \in js : TRUE
        IN [type |-> C.cols.type[j], isf |-> Truthy(C.cols.isFormula[j]),
            formula |-> C.cols.formula[j], rev |-> Rev(j), n |-> Cardinality(js)]
  IN [tt \in {T.cols.tableId[i] : i \in TI} |->
        LET tref == T.rows[LastT(tt)]
        IN [cc \in {C.cols.colId[j] : j \in ColsOf(tref)} |-> ColRec(tref, cc)]]

\* The logged schema, with the multiplicity field every column record of ExpectedSchema carries.
WithOne(sch) == [tt \in DOMAIN sch |-> [cc \in DOMAIN sch[tt] |->
                   [type |-> sch[tt][cc].type, isf |-> sch[tt][cc].isf,
                    formula |-> sch[tt][cc].formula, rev |-> sch[tt][cc].rev, n |-> 1]]]

Orphans(o) ==
  {o[MC].rows[j] : j \in {k \in 1..Len(o[MC].rows) : IntOf(o[MC].cols.parentId[k]) \notin RowSet(o, MT)}}

SchemaDiff(o, sch) ==
  IF MT \notin DOMAIN o \/ MC \notin DOMAIN o THEN {"no-meta"}
  ELSE LET e == ExpectedSchema(o)
           s == WithOne(sch)
       IN {tt \in (DOMAIN e) \cup (DOMAIN s) : tt \notin DOMAIN e \/ tt \notin DOMAIN s \/ e[tt] # s[tt]}
            \cup (IF Orphans(o) = {} THEN {} ELSE {"orphans"})

SchemaMatchesMeta(o, sch) == SchemaDiff(o, sch) = {}

(***************************************************************************)
(* Generic helpers over observed tables                                    *)
(***************************************************************************)
Idx(o, t) == 1..Len(o[t].rows)
Cell(o, t, c, i) == o[t].cols[c][i]
IsMeta(o, t) == t \in DOMAIN o /\ "base" \in DOMAIN o[t] /\ t \in MetaTables
RefColsOf(o, t) == {c \in DOMAIN o[t].cols : o[t].ref[c] # "" /\ o[t].ref[c] \in DOMAIN o}
DataRefColsOf(o, t) == {c \in RefColsOf(o, t) : ~o[t].isf[c]}
RowIdx(o, t, r) == CHOOSE i \in Idx(o, t) : o[t].rows[i] = r

(***************************************************************************)
(* C09: metadata references always resolve                                 *)
(***************************************************************************)
\* every reference cell of every metadata table is 0/empty or points at an existing record
DanglingMetaRefs(o) ==
  UNION {UNION {{<<t, c, o[t].rows[i]>> : i \in {k \in Idx(o, t) :
                     \E v \in IntSet(Cell(o, t, c, k)) : v # 0 /\ v \notin RowSet(o, o[t].ref[c])}}
                : c \in RefColsOf(o, t)}
         : t \in {x \in DOMAIN o : x \in MetaTables}}

\* references that may not be null
NonNull == {<<"_grist_Tables_column", "parentId">>, <<"_grist_Views_section_field", "parentId">>,
            <<"_grist_Views_section_field", "colRef">>, <<"_grist_Views_section", "tableRef">>,
            <<"_grist_Tables", "rawViewSectionRef">>, <<"_grist_TabBar", "viewRef">>,
            <<"_grist_Pages", "viewRef">>}
NullMetaRefs(o) ==
  UNION {{<<p[1], p[2], o[p[1]].rows[i]>> : i \in {k \in Idx(o, p[1]) : IntOf(Cell(o, p[1], p[2], k)) = 0}}
         : p \in {q \in NonNull : q[1] \in DOMAIN o /\ q[2] \in DOMAIN o[q[1]].cols}}

\* a field shows a column of its section's table
FieldColMismatch(o) ==
  LET F == "_grist_Views_section_field"  S == "_grist_Views_section"
  IN IF ~(F \in DOMAIN o /\ S \in DOMAIN o /\ MC \in DOMAIN o) THEN {}
     ELSE {o[F].rows[i] : i \in {k \in Idx(o, F) :
             LET sref == IntOf(Cell(o, F, "parentId", k))
                 cref == IntOf(Cell(o, F, "colRef", k))
             IN /\ sref \in RowSet(o, S) /\ cref \in RowSet(o, MC)
                /\ IntOf(Cell(o, S, "tableRef", RowIdx(o, S, sref)))
                     # IntOf(Cell(o, MC, "parentId", RowIdx(o, MC, cref)))}}

\* the raw / record-card section of a table shows that table
RawSectionMismatch(o) ==
  LET S == "_grist_Views_section"
  IN IF ~(MT \in DOMAIN o /\ S \in DOMAIN o) THEN {}
     ELSE {o[MT].rows[i] : i \in {k \in Idx(o, MT) :
             \E c \in {"rawViewSectionRef", "recordCardViewSectionRef"} \cap DOMAIN o[MT].cols :
               LET sref == IntOf(Cell(o, MT, c, k))
               IN sref \in RowSet(o, S) /\ IntOf(Cell(o, S, "tableRef", RowIdx(o, S, sref))) # o[MT].rows[k]}}

\* exactly one metadata record per user table of engine.schema (sch is keyed by tableId tokens)
TableRecordMismatch(o, sch) ==
  IF MT \notin DOMAIN o THEN {"no-meta"}
  ELSE LET T == o[MT]
           Count(tt) == Cardinality({i \in 1..Len(T.rows) : T.cols.tableId[i] = tt})
       IN {tt \in (DOMAIN sch) \cup {T.cols.tableId[i] : i \in 1..Len(T.rows)} :
             tt \notin DOMAIN sch \/ Count(tt) # 1}

\* display / rule helper columns are still used by a column, field or section
\* (HelperKind[colIdToken] is the judgement-free prefix classification done by the harness)
HelperKind == IF "helpers" \in DOMAIN File THEN File.helpers ELSE <<>>
UnusedHelpers(o) ==
  IF ~(MC \in DOMAIN o) THEN {} ELSE
  LET C == o[MC]
      F == "_grist_Views_section_field"
      S == "_grist_Views_section"
      Used(col, t) == IF t \in DOMAIN o /\ col \in DOMAIN o[t].cols
                      THEN UNION {IntSet(o[t].cols[col][i]) : i \in Idx(o, t)} ELSE {}
      displayUsed == Used("displayCol", MC) \cup Used("displayCol", F)
      rulesUsed == Used("rules", MC) \cup Used("rules", F) \cup Used("rules", S)
  IN {C.rows[j] : j \in {k \in 1..Len(C.rows) :
        LET kind == IF C.cols.colId[k] \in DOMAIN HelperKind THEN HelperKind[C.cols.colId[k]] ELSE ""
        IN \/ (kind = "display" /\ C.rows[k] \notin displayUsed)
           \/ (kind = "rule" /\ C.rows[k] \notin rulesUsed)}}

(***************************************************************************)
(* C20 (document part): position columns hold pairwise distinct values     *)
(***************************************************************************)
PosCols(o, t) == {c \in DOMAIN o[t].cols : o[t].base[c] \in {"ManualSortPos", "PositionNumber"} /\ ~o[t].isf[c]}
BadPositions(o, S) ==
  {<<t, c>> \in UNION {{<<t2, c2>> : c2 \in PosCols(o, t2)} : t2 \in S \cap DOMAIN o} :
     LET col == o[t].cols[c]
     IN \E i, j \in 1..Len(col) : i < j /\ col[i] = col[j]}

(***************************************************************************)
(* C10: removing rows leaves no references to them (action property:      *)
(* pre-state p, post-state o)                                              *)
(***************************************************************************)
Removed(p, o, t) == IF t \in DOMAIN p THEN RowSet(p, t) \ (IF t \in DOMAIN o THEN RowSet(o, t) ELSE {}) ELSE {}

\* data Ref / RefList cells that pointed at a removed row before the call and still do
StillPointing(p, o, S) ==
  UNION {UNION {{<<t, c, o[t].rows[i]>> : i \in {k \in Idx(o, t) :
                    LET r == o[t].rows[k]
                        tgt == o[t].ref[c]
                        rem == Removed(p, o, tgt)
                    IN /\ rem # {}
                       /\ r \in RowSet(p, t)
                       /\ c \in DOMAIN p[t].cols
                       /\ IntSet(Cell(o, t, c, k)) \cap rem # {}
                       /\ IntSet(Cell(p, t, c, RowIdx(p, t, r))) \cap rem # {}}}
                : c \in {d \in DataRefColsOf(o, t) : t \in DOMAIN p}}
         : t \in S \cap DOMAIN o}

\* RefList cells that contained removed rows must keep their other ids in order (None when empty),
\* judged only for calls that request nothing but removals
FilterSeq(s, rem) == SelectSeq(s, LAMBDA x : x \notin rem)
BadRefListCleanup(p, o, S) ==
  UNION {UNION {{<<t, c, o[t].rows[i]>> : i \in {k \in Idx(o, t) :
                    LET r == o[t].rows[k]
                        rem == Removed(p, o, o[t].ref[c])
                    IN /\ rem # {}
                       /\ r \in RowSet(p, t)
                       /\ c \in DOMAIN p[t].cols
                       /\ LET before == Cell(p, t, c, RowIdx(p, t, r))
                              after == Cell(o, t, c, k)
                          IN /\ IsIntList(before) /\ IntSet(before) \cap rem # {}
                             /\ ~( IF FilterSeq(IntsOf(before), rem) = <<>> THEN after = "n"
                                   ELSE IsIntList(after) /\ IntsOf(after) = FilterSeq(IntsOf(before), rem))}}
                : c \in {d \in DataRefColsOf(o, t) : t \in DOMAIN p /\ o[t].base[d] = "RefList"}}
         : t \in S \cap DOMAIN o}


(***************************************************************************)
(* C11: two-way references stay symmetric                                  *)
(***************************************************************************)
TableIdOfRef(o, tref) == StrOf(Cell(o, MT, "tableId", RowIdx(o, MT, tref)))

TwoWayViolations(o) ==
  IF ~(MT \in DOMAIN o /\ MC \in DOMAIN o /\ "reverseCol" \in DOMAIN o[MC].cols) THEN {} ELSE
  LET C == o[MC]
      linked == {j \in Idx(o, MC) : IntOf(C.cols.reverseCol[j]) # 0}
      Bad(j) ==
        LET rref == IntOf(C.cols.reverseCol[j])
        IN IF rref \notin RowSet(o, MC) THEN TRUE
           ELSE LET jb == RowIdx(o, MC, rref)
                    pa == IntOf(C.cols.parentId[j])
                    pb == IntOf(C.cols.parentId[jb])
                IN IF pa \notin RowSet(o, MT) \/ pb \notin RowSet(o, MT) THEN TRUE
                   ELSE LET ta == TableIdOfRef(o, pa)   tb == TableIdOfRef(o, pb)
                            ca == StrOf(C.cols.colId[j])   cb == StrOf(C.cols.colId[jb])
                        IN \/ IntOf(C.cols.reverseCol[jb]) # C.rows[j]        \* the link is mutual
                           \/ ~(ta \in DOMAIN o /\ tb \in DOMAIN o)
                           \/ ~(ca \in DOMAIN o[ta].cols /\ cb \in DOMAIN o[tb].cols)
                           \/ \E ia \in Idx(o, ta), ib \in Idx(o, tb) :
                                (o[tb].rows[ib] \in IntSet(o[ta].cols[ca][ia]))
                                  # (o[ta].rows[ia] \in IntSet(o[tb].cols[cb][ib]))
  IN {C.rows[j] : j \in {k \in linked : Bad(k)}}

(***************************************************************************)
(* C12: summary tables are exact group-bys of their source                 *)
(***************************************************************************)
\* Python equality classes of keys: True = 1, False = 0
NormKey(tok) == IF tok = "b1" THEN "#1" ELSE IF tok = "b0" THEN "#0" ELSE tok

RECURSIVE SortedInts(_)
SortedInts(S) == IF S = {} THEN <<>>
                 ELSE LET m == CHOOSE x \in S : \A y \in S : x <= y IN <<m>> \o SortedInts(S \ {m})

SummaryViolationsOf(o, i) ==
  LET T == o[MT]
      C == o[MC]
      ts == T.rows[i]
      srcRef == IntOf(T.cols.summarySourceTable[i])
  IN IF srcRef \notin RowSet(o, MT) THEN {"C12.source"} ELSE
  LET sumId == StrOf(T.cols.tableId[i])
      srcId == TableIdOfRef(o, srcRef)
  IN IF ~(sumId \in DOMAIN o /\ srcId \in DOMAIN o) THEN {"C12.source"} ELSE
  LET gb == {j \in Idx(o, MC) : IntOf(C.cols.parentId[j]) = ts /\ IntOf(C.cols.summarySourceCol[j]) # 0
                               /\ IntOf(C.cols.summarySourceCol[j]) \in RowSet(o, MC)}
      SumCol(j) == StrOf(C.cols.colId[j])
      SrcCol(j) == StrOf(C.cols.colId[RowIdx(o, MC, IntOf(C.cols.summarySourceCol[j]))])
  IN IF \E j \in gb : SumCol(j) \notin DOMAIN o[sumId].cols \/ SrcCol(j) \notin DOMAIN o[srcId].cols
        \/ "group" \notin DOMAIN o[sumId].cols
     THEN {"C12.columns"} ELSE
     \* Group-by columns of type Date / DateTime are not judged: their key is the calendar date of the
     \* raw timestamp, which is arithmetic on 64-bit values that the tokens do not expose.
     IF \E j \in gb : o[srcId].base[SrcCol(j)] \in {"Date", "DateTime"} THEN {} ELSE
  LET Empty(base) == IF base = "ChoiceList" THEN "s" ELSE "#0"
      KeyVals(ir, j) ==
        LET cell == o[srcId].cols[SrcCol(j)][ir]
            base == o[srcId].base[SrcCol(j)]
        IN IF base \in {"ChoiceList", "RefList"}
           THEN IF IsList(cell)
                THEN IF ElemsOf(cell) = <<>> THEN {Empty(base)}
                     ELSE {NormKey(ElemsOf(cell)[k]) : k \in 1..Len(ElemsOf(cell))}
                ELSE IF cell = "n" THEN {Empty(base)} ELSE {}
           ELSE {NormKey(cell)}
      Keys(ir) == LET U == UNION {KeyVals(ir, j) : j \in gb}
                  IN {f \in [gb -> U] : \A j \in gb : f[j] \in KeyVals(ir, j)}
      SrcIdx == Idx(o, srcId)
      AllKeys == UNION {Keys(ir) : ir \in SrcIdx}
      Expected(key) == SortedInts({o[srcId].rows[ir] : ir \in {x \in SrcIdx : key \in Keys(x)}})
      SumIdx == Idx(o, sumId)
      RowKey(k) == [j \in gb |-> NormKey(o[sumId].cols[SumCol(j)][k])]
      RowGroup(k) == IntsOf(o[sumId].cols.group[k])
  IN (IF {RowKey(k) : k \in SumIdx} = AllKeys THEN {} ELSE {"C12.keys"})
     \cup (IF \A k1, k2 \in SumIdx : k1 # k2 => RowKey(k1) # RowKey(k2) THEN {} ELSE {"C12.dup"})
     \* (the `group` helper column can be removed or renamed by the user: then only keys are judged)
     \cup (IF "group" \notin DOMAIN o[sumId].cols THEN {}
          ELSE IF \A k \in SumIdx : RowKey(k) \in AllKeys => RowGroup(k) = Expected(RowKey(k))
          THEN {} ELSE {"C12.group"})

SummaryViolations(o) ==
  IF ~(MT \in DOMAIN o /\ MC \in DOMAIN o /\ "summarySourceTable" \in DOMAIN o[MT].cols) THEN {} ELSE
  UNION {{<<o[MT].rows[i], c>> : c \in SummaryViolationsOf(o, i)}
         : i \in {k \in Idx(o, MT) : IntOf(o[MT].cols.summarySourceTable[k]) # 0}}

(***************************************************************************)
(* C31: direct flags                                                       *)
(***************************************************************************)
SummaryTableIds(o) ==
  IF ~(MT \in DOMAIN o /\ "summarySourceTable" \in DOMAIN o[MT].cols) THEN {}
  ELSE {StrOf(o[MT].cols.tableId[i]) : i \in {k \in Idx(o, MT) : IntOf(o[MT].cols.summarySourceTable[k]) # 0}}

\* indices of stored actions whose direct flag contradicts the property.
\* p = document before the call, o = after; req = [table -> requested columns] for record-edit requests.
BadDirect(p, o, stored, direct, req) ==
  LET n == IF Len(stored) < Len(direct) THEN Len(stored) ELSE Len(direct)
      IsRec(a) == a.n \in {"BulkAddRecord", "BulkUpdateRecord", "BulkRemoveRecord"}
      \* tables that are summary tables before AND after the call (a table being detached or created in
      \* this very call is not judged), columns that are formula columns before AND after
      sums == SummaryTableIds(p) \cap SummaryTableIds(o)
      AllFormula(a) == /\ a.n = "BulkUpdateRecord" /\ a.t \in DOMAIN o /\ a.t \in DOMAIN p /\ DOMAIN a.c # {}
                       /\ \A c \in DOMAIN a.c : /\ c \in DOMAIN o[a.t].isf /\ o[a.t].isf[c]
                                                 /\ c \in DOMAIN p[a.t].isf /\ p[a.t].isf[c]
      Requested(a) == /\ IsRec(a) /\ a.t \in DOMAIN req /\ a.t \notin sums
                      /\ \/ a.n = "BulkRemoveRecord"
                         \/ a.n = "BulkAddRecord" /\ \E c \in DOMAIN a.c : c \in {req[a.t][k] : k \in 1..Len(req[a.t])}
                         \/ a.n = "BulkUpdateRecord" /\ \E c \in DOMAIN a.c :
                               c \in {req[a.t][k] : k \in 1..Len(req[a.t])} /\ a.t \in DOMAIN o
                               /\ c \in DOMAIN o[a.t].hasf /\ ~o[a.t].hasf[c]   \* a plain data column
                               /\ a.t \in DOMAIN p /\ c \in DOMAIN p[a.t].hasf /\ ~p[a.t].hasf[c]
                               \* (and not an empty column: typing into one first converts it to a data
                               \*  column, which writes defaults into the same cells, indirectly)
                               /\ c \in DOMAIN p[a.t].isf /\ ~p[a.t].isf[c]
     \* maintenance of summary-table ROWS = adding and removing them (an update of a group-by cell of a
     \* summary table can also be the clean-up of references to removed rows, which belongs to the request)
  IN {<<i, "summary-direct">> : i \in {k \in 1..n : stored[k].n \in {"BulkAddRecord", "BulkRemoveRecord"}
                                                   /\ stored[k].t \in sums /\ direct[k]}}
     \cup {<<i, "formula-direct">> : i \in {k \in 1..n : AllFormula(stored[k]) /\ direct[k]}}
     \cup {<<i, "schema-direct">> : i \in {k \in 1..n : DOMAIN req # {} /\ ~IsRec(stored[k]) /\ direct[k]}}
     \cup {<<i, "request-indirect">> : i \in {k \in 1..n : Requested(stored[k]) /\ ~direct[k]}}

HasSummary(o) == MT \in DOMAIN o /\ "summarySourceTable" \in DOMAIN o[MT].cols
                 /\ \E k \in Idx(o, MT) : IntOf(o[MT].cols.summarySourceTable[k]) # 0
HasTwoWay(o) == MC \in DOMAIN o /\ "reverseCol" \in DOMAIN o[MC].cols
                /\ \E k \in Idx(o, MC) : IntOf(o[MC].cols.reverseCol[k]) # 0
=============================================================================
