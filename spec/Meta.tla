-------------------------------- MODULE Meta --------------------------------
(***************************************************************************)
(* The metadata layer as predicates over OBSERVED documents                *)
(*   [tableId -> [rows : ascending seq of ids, cols : [colId -> seq], base]]*)
(***************************************************************************)
EXTENDS TraceIO, FiniteSets

MT == "_grist_Tables"
MC == "_grist_Tables_column"

Truthy(tok) == tok \notin {"b0", "n", "#0", "s"}

HasCol(o, t, c) == t \in DOMAIN o /\ c \in DOMAIN o[t].cols
NRows(o, t) == Len(o[t].rows)
RowSet(o, t) == {o[t].rows[i] : i \in 1..Len(o[t].rows)}

(***************************************************************************)
(* C08: schema.build_schema transcribed.  The logged engine.schema is      *)
(*   [tableIdToken -> [colIdToken -> [type, isf, formula, rev]]]           *)
(* restricted to the tables that do not belong to the built-in metadata.   *)
(***************************************************************************)
ExpectedSchema(o) ==
  LET T == o[MT]
      C == o[MC]
      TI == 1..Len(T.rows)
      CI == 1..Len(C.rows)
      ColIdOfRef(ref) ==
        IF \E j \in CI : C.rows[j] = ref
        THEN C.cols.colId[CHOOSE j \in CI : C.rows[j] = ref] ELSE "n"
      Rev(j) == IF "reverseCol" \in DOMAIN C.cols THEN ColIdOfRef(IntOf(C.cols.reverseCol[j])) ELSE "n"
      ColsOf(tref) == {j \in CI : IntOf(C.cols.parentId[j]) = tref}
      \* a later record with the same id overrides an earlier one (dict semantics)
      LastT(tok) == CHOOSE i \in TI : T.cols.tableId[i] = tok /\ \A k \in TI : k > i => T.cols.tableId[k] # tok
      ColRec(tref, ctok) ==
        LET js == {j \in ColsOf(tref) : C.cols.colId[j] = ctok}
            j  == CHOOSE j \in js : TRUE
        IN [type |-> C.cols.type[j], isf |-> Truthy(C.cols.isFormula[j]),
            formula |-> C.cols.formula[j], rev |-> Rev(j), n |-> Cardinality(js)]
  IN [tt \in {T.cols.tableId[i] : i \in TI} |->
        LET tref == T.rows[LastT(tt)]
        IN [cc \in {C.cols.colId[j] : j \in ColsOf(tref)} |-> ColRec(tref, cc)]]

\* The logged schema, with the multiplicity field every column record of ExpectedSchema carries.
WithOne(sch) == [tt \in DOMAIN sch |-> [cc \in DOMAIN sch[tt] |->
                   [type |-> sch[tt][cc].type, isf |-> sch[tt][cc].isf,
                    formula |-> sch[tt][cc].formula, rev |-> sch[tt][cc].rev, n |-> 1]]]

Orphans(o) ==
  {o[MC].rows[j] : j \in {k \in 1..Len(o[MC].rows) : IntOf(o[MC].cols.parentId[k]) \notin RowSet(o, MT)}}

SchemaDiff(o, sch) ==
  IF MT \notin DOMAIN o \/ MC \notin DOMAIN o THEN {"no-meta"}
  ELSE LET e == ExpectedSchema(o)
           s == WithOne(sch)
       IN {tt \in (DOMAIN e) \cup (DOMAIN s) : tt \notin DOMAIN e \/ tt \notin DOMAIN s \/ e[tt] # s[tt]}
            \cup (IF Orphans(o) = {} THEN {} ELSE {"orphans"})

SchemaMatchesMeta(o, sch) == SchemaDiff(o, sch) = {}

=============================================================================
