------------------------------ MODULE RecalcSem ------------------------------
(***************************************************************************)
(* Denotational meaning of a formula program (the oracle of Recalc.tla and *)
(* of the conformance judge Trace_RecalcFinal.tla), parametrised by the    *)
(* program: sm[c] = same-row reads of column c, cr[c] = reads of row 1.    *)
(***************************************************************************)
EXTENDS Naturals, Integers, Sequences, FiniteSets

Circ  == -1      \* the CircularRefError value
Unset == -2

PReadsOf(sm, cr, c, r) == {<<d, r>> : d \in sm[c]} \cup {<<d, 1>> : d \in cr[c]}

RECURSIVE PReachSet(_, _, _, _)
PReachSet(sm, cr, frontier, seen) ==
  LET next == UNION {PReadsOf(sm, cr, x[1], x[2]) : x \in frontier} \ seen
  IN IF next = {} THEN seen ELSE PReachSet(sm, cr, next, seen \cup next)
PReach(sm, cr, cell) == PReachSet(sm, cr, {cell}, {})      \* cells reachable in >= 1 step
POnCycle(sm, cr, cell) == cell \in PReach(sm, cr, cell)
PReachesCycle(sm, cr, cell) ==
  POnCycle(sm, cr, cell) \/ \E x \in PReach(sm, cr, cell) : POnCycle(sm, cr, x)

\* A formula adds 1 and every value it reads; a cell read twice (same row and through the
\* reference to row 1) counts twice, as `1 + $A + $R.A` does.
RECURSIVE PSem(_, _, _)
PSem(sm, cr, cell) ==
  IF PReachesCycle(sm, cr, cell) THEN Circ
  ELSE LET RECURSIVE Sum(_, _)
           Sum(S, row) == IF S = {} THEN 0
                          ELSE LET x == CHOOSE y \in S : TRUE
                               IN PSem(sm, cr, <<x, row>>) + Sum(S \ {x}, row)
       IN 1 + Sum(sm[cell[1]], cell[2]) + Sum(cr[cell[1]], 1)
=============================================================================
