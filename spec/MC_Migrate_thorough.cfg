INIT Init
NEXT Next
CONSTANTS Classes = {"nonjson", "empty", "jnum", "jstr", "jnull", "jtrue", "jlist1", "jlistc", "lok",
                     "dstr", "dlist", "dhuge", "ddict", "dok"}
          PopLow = 2
          PopHigh = 2
          OneStep = 2
INVARIANT SpecSane
