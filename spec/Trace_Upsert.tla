----------------------------- MODULE Trace_Upsert -----------------------------
(* Judges recorded executions of the real BulkAddOrUpdateRecord / AddOrUpdateRecord user actions  *)
(* (harness/fn_upsert.py) against Upsert!Clauses.                                                 *)
(* Cases: <<[inp |-> [kind, rows, require, colvals, opts, prep],                                  *)
(*           out |-> [exc, same, retok, recs, adds, upds, action, after], exc |-> ""]>>           *)
(* Verdicts: <<[i |-> case index, c |-> {failed clauses}]>>                                       *)
EXTENDS Upsert, TLC, Json, IOUtils
Cases == JsonDeserialize(IOEnv.TRACE_FILE)
N == Len(Cases)
VARIABLES i, bad

Obs(ob) == [rej |-> ob.exc # "", same |-> ob.same = 1, retok |-> ob.retok = 1, recs |-> ob.recs,
            adds |-> ob.adds, upds |-> ob.upds, action |-> ob.action, after |-> ob.after]

Judge(c) == IF c.exc # "" THEN {"C28.raised"} ELSE Clauses(c.inp, Obs(c.out))

Init == i = 0 /\ bad = <<>> /\ (N > 0 \/ JsonSerialize(IOEnv.OUT_FILE, <<>>))
Next ==
  /\ i < N
  /\ i' = i + 1
  /\ bad' = LET j == Judge(Cases[i + 1])
            IN IF j = {} THEN bad ELSE Append(bad, [i |-> i + 1, c |-> j])
  /\ (i' < N \/ JsonSerialize(IOEnv.OUT_FILE, bad'))
Spec == Init /\ [][Next]_<<i, bad>>
View == i
=============================================================================
