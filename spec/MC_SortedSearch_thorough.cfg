INIT Init
NEXT Next
CHECK_DEADLOCK FALSE
CONSTANTS Fams <- ThoroughFams
INVARIANT SpecSane
