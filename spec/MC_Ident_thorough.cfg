INIT Init
NEXT Next
CONSTANTS MaxLen = 3
          ListArity = 3
INVARIANT SpecSane
