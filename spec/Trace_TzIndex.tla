---------------------------- MODULE Trace_TzIndex ----------------------------
(* Judges recorded conversions of the real moment.py against TzIndex.  Three kinds of cases (a file    *)
(* may mix them; cases are never compared with each other), c.k =                                      *)
(*  "syn"   a synthetic zone (of the design model, or a random larger one; WellFormed is checked)      *)
(*          installed into moment's zone table and probed over a window of hours:                      *)
(*          [inp |-> [z, lo, hi], out |-> [ts, loc, dt]] judged by TzIndex!Fails.  The entries also   *)
(*          carry what the harness' readers of raw zone records (used for the bundled zones, where    *)
(*          TLC cannot do the arithmetic) say about the same probe; they must equal the definitions   *)
(*          of the specification: c = Cand / offset in force, ex = the local time exists, dx = the    *)
(*          day is not skipped as a whole, um / at =                                                  *)
(*          offset in force at the UTC midnight / at the returned instant  ("C34.harness")            *)
(*  "real"  a bundled zone: timestamps, dates and offsets are opaque ASCII tokens;                     *)
(*          ts  [t, b, off, c]   instant, converted back, offset applied, raw candidates              *)
(*          loc [l, f, off, c]   local time, favoured offset, offset assigned, raw candidates         *)
(*          dt  [d, back, tod, ex, dx, u]  date, date and time of day of the midnight instant         *)
(*                               converted back, whether 00:00 exists on d, whether any local time of *)
(*                               d exists, date after the zone-less round trip                        *)
(*          token equality = round trip; membership = the offset is one in use around the instant     *)
(*  "shape" a bundled zone's record reduced to small integers (seconds; separations of consecutive     *)
(*          transitions capped at 10^6 s): it must be in the class of zones of the design model        *)
(*          (TzIndex!WellFormed), "C34.assume"                                                         *)
(* Verdicts: <<[i |-> case index, c |-> {failed clauses}, p |-> {[c, k, n]: clause, probe list, index}]>> *)
EXTENDS TzIndex, TLC, Json, IOUtils
Cases == JsonDeserialize(IOEnv.TRACE_FILE)
N == Len(Cases)
VARIABLES i, bad
B(x) == IF x THEN 1 ELSE 0

HarnessFails(in, out) ==
  LET z == in.z IN
  UNION {LET e == out.ts[n] IN
         IF e.exc = "" /\ Range(e.c) # {OffAt(z, e.t)} THEN {F("C34.harness", "ts", n)} ELSE {}
         : n \in 1..Len(out.ts)} \cup
  UNION {LET e == out.loc[n] IN
         IF e.exc = "" /\ (Range(e.c) # Cand(z, e.l + e.o) \/ e.ex # B(Interp(z, e.l) # {}))
         THEN {F("C34.harness", "loc", n)} ELSE {}
         : n \in 1..Len(out.loc)} \cup
  UNION {LET e == out.dt[n] IN
         IF e.exc = "" /\ (e.ex # B(Interp(z, Day * e.d) # {}) \/ e.dx # B(~DaySkipped(z, e.d)) \/ e.um # OffAt(z, Day * e.d) \/ e.at # OffAt(z, e.t))
         THEN {F("C34.harness", "dt", n)} ELSE {}
         : n \in 1..Len(out.dt)}

RealFails(c) ==
  UNION {LET e == c.ts[n] IN
         IF e.exc # "" THEN {F("C34.raised", "ts", n)}
         ELSE (IF e.b # e.t THEN {F("C34.roundtrip", "ts", n)} ELSE {}) \cup
              (IF e.off \notin Range(e.c) THEN {F("C34.offset", "ts", n)} ELSE {})
         : n \in 1..Len(c.ts)} \cup
  UNION {LET e == c.loc[n] IN
         IF e.exc # "" THEN {F("C34.raised", "loc", n)}
         ELSE IF e.off \notin Range(e.c) THEN {F("C34.offset", "loc", n)} ELSE {}
         : n \in 1..Len(c.loc)} \cup
  UNION {LET e == c.dt[n] IN
         IF e.exc # "" THEN {F("C34.raised", "dt", n)}
         ELSE IF e.u # e.d \/ (e.dx = 1 /\ (e.back # e.d \/ (e.ex = 1 /\ e.tod # "00:00:00")))
              THEN {F("C34.date", "dt", n)} ELSE {}
         : n \in 1..Len(c.dt)}

RECURSIVE Cumul(_, _, _)
Cumul(sep, k, acc) == IF k > Len(sep) THEN acc ELSE Cumul(sep, k + 1, Append(acc, acc[Len(acc)] + sep[k]))
ShapeFails(c) ==
  LET z == [u |-> IF Len(c.o) = 1 THEN <<>> ELSE Cumul(c.sep, 1, <<0>>), o |-> c.o]
  IN IF Len(c.sep) = (IF Len(c.o) >= 2 THEN Len(c.o) - 2 ELSE 0) /\ (\A k \in 1..Len(c.sep) : c.sep[k] > 0) /\ WellFormed(z)
     THEN {} ELSE {F("C34.assume", "", 0)}

JudgeFails(c) ==
  CASE c.k = "syn" -> IF ~WellFormed(c.inp.z) THEN {F("C34.assume", "", 0)}
                      ELSE Fails(c.inp, c.out) \cup (IF ShapeOk(c.inp, c.out) THEN HarnessFails(c.inp, c.out) ELSE {})
    [] c.k = "real" -> RealFails(c)
    [] c.k = "shape" -> ShapeFails(c)

Init == i = 0 /\ bad = <<>> /\ (N > 0 \/ JsonSerialize(IOEnv.OUT_FILE, <<>>))
Next ==
  /\ i < N
  /\ i' = i + 1
  /\ bad' = LET j == JudgeFails(Cases[i + 1])
            IN IF j = {} THEN bad ELSE Append(bad, [i |-> i + 1, c |-> {f.c : f \in j}, p |-> j])
  /\ (i' < N \/ JsonSerialize(IOEnv.OUT_FILE, bad'))
Spec == Init /\ [][Next]_<<i, bad>>
View == i
=============================================================================
