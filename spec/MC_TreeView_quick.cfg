INIT Init
NEXT Next
CONSTANTS MaxLen = 4
          MaxInd = 3
INVARIANT SpecSane
