----------------------------- MODULE MC_Schedule -----------------------------
(* Bounded design model of SCHEDULE.  One state per input (plus one per schedule).                                        *)
(*   schedules : every unit, n in 1..MaxN, every in-order selection of <= MaxSlots slots from the   *)
(*               unit's menu that satisfies the property's precondition (Schedule!Pre)              *)
(*   starts    : the anchors, and around the unit boundary (Depth >= 2: and the next one) and every *)
(*               occurrence of the anchor's unit: one second before, exactly at, a microsecond after*)
(*   counts    : Counts;   ends : none, exactly at / just before the last occurrence, and           *)
(*               (Depth >= 2) before start, at / just before the first, just after the last         *)
(* plus one-slot schedules built from every pair of part kinds for every unit (most of them are     *)
(* invalid: kind not available for the unit, or a unit mentioned twice).                            *)
(* The input space is written out (see Chunk) so that the harness runs the real SCHEDULE on it.    *)
EXTENDS Schedule, TLC, Json, IOUtils, SequencesExt, FiniteSetsExt
CONSTANTS MaxN, MaxSlots, Counts, NAnchors, Depth

P(k, a, b, c) == [k |-> k, a |-> a, b |-> b, c |-> c]
Date(m, d) == P("date", m, d, 0)
Mday(d) == P("mday", d, 0, 0)
Wday(w) == P("wday", w, 0, 0)
Time(h, mi, ap) == P("time", h, mi, ap)
Mins(mi) == P("mins", mi, 0, 0)
Delta(cnt, u) == P("delta", cnt, u, 0)

\* menus, listed in increasing order of offset
Menu(u) ==
  CASE u = 1 -> << <<Time(9, 30, 1)>>, <<Date(1, 15)>>, <<Delta(40, 4)>>, <<Date(2, 28), Time(23, 59, 0)>>,
                   <<Delta(2, 2)>>, <<Date(4, 15)>>, <<Date(7, 15), Time(2, 0, 2)>>,
                   <<Date(12, 28), Time(12, 0, 1)>>, <<Delta(1, 1), Date(3, 1)>> >>
    [] u = 2 -> << <<Delta(0, 4), Time(12, 0, 2)>>, <<Mday(1), Time(2, 0, 2)>>, <<Mday(10)>>, <<Delta(2, 3)>>,
                   <<Mday(15), Time(5, 0, 2)>>, <<Mday(28), Time(23, 59, 0)>>,
                   <<Delta(1, 2), Mday(20)>>, <<Delta(2, 2)>> >>
    [] u = 3 -> << <<Wday(0)>>, <<Wday(1), Time(9, 0, 1)>>, <<Delta(1, 4), Time(9, 30, 1)>>,
                   <<Wday(2), Time(9, 0, 1)>>, <<Wday(5), Time(2, 0, 2)>>,
                   <<Wday(6), Time(23, 59, 0), Delta(59, 7)>>, <<Delta(1, 3), Wday(2)>>,
                   <<Delta(2, 3), Delta(3, 4)>> >>
    [] u = 4 -> << <<Time(12, 0, 1)>>, <<Time(7, 30, 0)>>, <<Time(12, 0, 2)>>, <<Time(4, 0, 2)>>,
                   <<Time(21, 0, 0)>>, <<Time(11, 59, 2), Delta(59, 7)>>, <<Delta(1, 4), Time(8, 0, 1)>>,
                   <<Delta(50, 5)>> >>
    [] u = 5 -> << <<Mins(0)>>, <<Mins(15)>>, <<Delta(30, 6)>>, <<Mins(45)>>, <<Mins(59), Delta(59, 7)>>,
                   <<Delta(1, 5), Mins(20)>>, <<Delta(2, 5), Mins(40)>> >>
    [] u = 6 -> << <<Delta(0, 7)>>, <<Delta(30, 7)>>, <<Delta(59, 7)>>, <<Delta(1, 6)>>,
                   <<Delta(1, 6), Delta(30, 7)>>, <<Delta(2, 6)>> >>
    [] u = 7 -> << <<Delta(0, 7)>>, <<Delta(1, 7)>>, <<Delta(2, 7)>> >>

\* in-order selections: increasing index sequences
IdxSeqs(m) == {s \in UNION {[1..l -> 1..m] : l \in 1..MaxSlots} : \A i \in 1..(Len(s) - 1) : s[i] < s[i + 1]}
Scheds ==
  UNION {
    {sc \in {[unit |-> u, n |-> n, slots |-> [i \in 1..Len(ix) |-> Menu(u)[ix[i]]]] :
                n \in 1..MaxN, ix \in IdxSeqs(Len(Menu(u)))} :
       Pre(sc)}
    : u \in 1..7}

At(y, m, d, H, M, S) == DaysFromCivil(y, m, d) * DAY + H * 3600 + M * 60 + S
AllAnchors == << At(2018, 9, 4, 14, 0, 0),        \* Tuesday, the documentation's example
                 At(2022, 12, 31, 23, 59, 59),    \* a second before a year/month/week/day/hour/minute boundary
                 At(2024, 2, 29, 11, 15, 30) >>   \* leap day
Anchors == {AllAnchors[i] : i \in 1..NAnchors}

WithStart(sc, st, sub, cnt) ==
  [unit |-> sc.unit, n |-> sc.n, slots |-> sc.slots, start |-> st, sub |-> sub,
   hasEnd |-> 0, end |-> 0, esub |-> 0, count |-> cnt]
\* <<start, sub>> pairs for a schedule
Starts(sc) ==
  UNION {
    LET probe == WithStart(sc, a, 0, 1)
        b0 == Base(probe)
        b1 == AddUnits(b0, sc.unit, 1)
        pts == {b0} \cup (IF Depth >= 2 THEN {b1} ELSE {}) \cup {Pos(probe, 0, i) : i \in 1..Len(sc.slots)}
    IN {<<a, 0>>} \cup UNION {{<<p - 1, 0>>, <<p, 0>>, <<p, 1>>} : p \in pts}
    : a \in Anchors}

Ends(in) ==
  LET e == Occ(in)
      l == Len(e)
  IN IF l = 0 THEN {<<0, 0, 0>>}
     ELSE {<<0, 0, 0>>, <<1, e[l], 0>>, <<1, e[l] - 1, 1>>}
          \cup (IF Depth >= 2
                THEN {<<1, in.start - 1, 0>>, <<1, e[1], 0>>, <<1, e[1] - 1, 1>>,
                      <<1, e[l], 1>>, <<1, e[l] + 1, 0>>}
                ELSE {})

InputsFor(sc) ==
  UNION {
    LET in == WithStart(sc, sp[1], sp[2], cnt)
    IN {[in EXCEPT !.hasEnd = x[1], !.end = x[2], !.esub = x[3]] : x \in Ends(in)}
    : sp \in Starts(sc), cnt \in Counts}

\* one-slot schedules from one or two parts of every kind (validity decided by Schedule!StructValid)
SomeParts == {Date(3, 15), Mday(15), Wday(3), Time(9, 0, 1), Time(15, 45, 0), Mins(30)}
             \cup {Delta(1, u) : u \in 1..7}
Probes ==
  {WithStart([unit |-> u, n |-> 1, slots |-> <<s>>], AllAnchors[1], 0, 2) :
     u \in 1..7, s \in {<<p>> : p \in SomeParts} \cup {<<p, q>> : p \in SomeParts, q \in SomeParts}}
Bad == {in \in Probes : ~StructValid(in)}
ProbeInputs == Bad \cup {in \in Probes : StructValid(in) /\ Pre(in)}

(* One initial state per schedule (k = 0: the probes); its successors are the inputs of that schedule,  *)
(* so that TLC's workers build and check them in parallel.  While computing the successors of schedule  *)
(* k, TLC writes them to <OUT_FILE>.<k>.json for the harness.                                           *)
SchedSeq == SetToSeq(Scheds)
ASSUME PrintT(<<"schedules", Len(SchedSeq), "invalid probes", Cardinality(Bad)>>)

VARIABLES phase, k, input
vars == <<phase, k, input>>
Chunk(i, S) == "OUT_FILE" \in DOMAIN IOEnv
                 => JsonSerialize(IOEnv.OUT_FILE \o "." \o ToString(i) \o ".json", SetToSeq(S))
Init == phase = "schedule" /\ k \in 0..Len(SchedSeq) /\ input = 0
Next ==
  \/ /\ phase = "schedule"
     /\ LET S == IF k = 0 THEN ProbeInputs ELSE InputsFor(SchedSeq[k])
        IN Chunk(k, S) /\ input' \in S
     /\ phase' = "input" /\ k' = k
  \/ phase = "input" /\ UNCHANGED vars
SpecSane == phase = "input" => Sane(input)
=============================================================================
