----------------------------- MODULE MC_Relabel -----------------------------
(* Bounded design model of C20: every set of at most MaxEx existing positions on the grid        *)
(* 0..Grid-1, every batch of at most MaxReq requested positions over grid + {-inf, +inf}           *)
(* (duplicates and ties with existing rows included).  One state per input.  The input space is  *)
(* also written out as JSON so that the harness runs the real relabeling.prepare_inserts on       *)
(* exactly the inputs TLC enumerated (each grid point embedded into floats several ways).         *)
EXTENDS Relabel, TLC, Json, IOUtils, SequencesExt, FiniteSetsExt
CONSTANTS Grid, MaxEx, MaxReq

Points  == 0..(Grid - 1)
\* strictly increasing sequences of at most MaxEx grid points
ExSeqs  == {e \in UNION {[1..n -> Points] : n \in 0..MaxEx} : \A j \in 1..(Len(e) - 1) : e[j] < e[j + 1]}
ReqVals == {<<0, i>> : i \in Points} \cup {<<-1, 0>>, <<1, 0>>}
ReqSeqs == UNION {[1..m -> ReqVals] : m \in 0..MaxReq}

\* grid point i is the finite value of rank i
AsInput(e, r) == [old |-> [j \in 1..Len(e) |-> <<0, e[j]>>], req |-> r]
\* (TLCEval: enumerate the lazily represented sets once)
Valid == TLCEval({AsInput(e, r) : e \in TLCEval(ExSeqs), r \in TLCEval(ReqSeqs)})

ASSUME /\ "OUT_FILE" \in DOMAIN IOEnv
       => JsonSerialize(IOEnv.OUT_FILE,
            SetToSeq({[ex |-> [j \in 1..Len(in.old) |-> in.old[j][2]], req |-> in.req] : in \in Valid}))

VARIABLE input
Init == input \in Valid
Next == UNCHANGED input
SpecSane  == Pre(input) /\ Ok(input, Ref(input))
SpecTight == OrderMatters(input) => ~Ok(input, Mirror(input))
=============================================================================
