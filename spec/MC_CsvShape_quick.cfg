INIT Init
NEXT Next
CHECK_DEADLOCK FALSE
CONSTANTS MaxW = 3
          MaxWA = 2
          CountsA = {1, 99, 100}
          KindsA = {"e", "a", "1"}
          MaxSegsA = 3
          CountsB = {1}
          MaxSegsB = 2
          Holes = FALSE
          Delims = {"comma", "semi", "tab", "pipe"}
          Quotes = {"dq", "sq"}
INVARIANT SpecSane
