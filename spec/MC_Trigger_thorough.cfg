SPECIFICATION Spec
VIEW View
CHECK_DEADLOCK FALSE
CONSTANTS Depth = 3
          MaxActs = 3
          Fms = {0, 1}
          Abstract = TRUE
          FullFirst = TRUE
          Starts = {"two", "one", "empty"}
          MaxRow = 3
          TwoCols = 6
INVARIANT TypeOK
INVARIANT SpecSane
