SPECIFICATION Spec
VIEW View
CHECK_DEADLOCK FALSE
CONSTANTS Depth = 3
          MaxActs = 3
          Fm0 = TRUE
          Abstract = TRUE
          FullFirst = FALSE
          Starts = {"two", "empty"}
          MaxRow = 3
          TwoCols = 6
INVARIANT TypeOK
INVARIANT SpecSane
