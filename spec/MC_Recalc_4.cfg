SPECIFICATION Spec
CONSTANTS ColSeq <- Cols4
          Rows = {1}
          AllowCross = FALSE
INVARIANT NoProgressFailureUnreachable
INVARIANT FinalValues
INVARIANT LockDiscipline
INVARIANT CleanEnd
CHECK_DEADLOCK FALSE
