------------------------------ MODULE Trace_Peer ------------------------------
(***************************************************************************)
(* C30 - outputs are deterministic across processes.                       *)
(* Every step of Trace_Doc is a FUNCTION of (document, request): two        *)
(* recorded traces of the same history, produced by separate data-engine   *)
(* processes with different Python hash seeds, must be the same behaviour. *)
(* Input: [pairs |-> <<[tid, seeds, a |-> events, b |-> events]>>]          *)
(***************************************************************************)
EXTENDS Naturals, Sequences, FiniteSets, TLC, Json, IOUtils
File == JsonDeserialize(IOEnv.TRACE_FILE)
Pairs == File.pairs
N == Len(Pairs)
VARIABLES i, bad
Fields == {"k", "tag", "exc", "stored", "direct", "undo", "ret", "delta", "schema", "uas"}
Differ(x, y) == {f \in Fields : (f \in DOMAIN x) # (f \in DOMAIN y) \/ (f \in DOMAIN x /\ f \in DOMAIN y /\ x[f] # y[f])}
Judge(p) ==
  IF Len(p.a) # Len(p.b) THEN <<[l |-> 0, c |-> "C30.length", d |-> {}]>>
  ELSE LET badIdx == {l \in 1..Len(p.a) : Differ(p.a[l], p.b[l]) # {}}
       IN IF badIdx = {} THEN <<>>
          ELSE LET l == CHOOSE x \in badIdx : \A y \in badIdx : x <= y
               IN <<[l |-> l, c |-> "C30.same", d |-> Differ(p.a[l], p.b[l])]>>
Init == i = 0 /\ bad = <<>> /\ (N > 0 \/ JsonSerialize(IOEnv.OUT_FILE, <<>>))
Next ==
  /\ i < N
  /\ i' = i + 1
  /\ bad' = Append(bad, [tid |-> Pairs[i + 1].tid, n |-> Len(Pairs[i + 1].a), v |-> Judge(Pairs[i + 1])])
  /\ (i' < N \/ JsonSerialize(IOEnv.OUT_FILE, bad'))
Spec == Init /\ [][Next]_<<i, bad>>
View == i
=============================================================================
